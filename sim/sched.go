package sim

import (
	"fmt"
	"runtime"
	"sort"
	"strings"
	"testing/synctest"
)

// The seeded goroutine scheduler.
//
// Inside a WithSchedule scope every goroutine that reaches a scheduling point
// (YieldPoint, called from harness seams; in the instrumented flavour also
// every Lock / Unlock of a coreutils mutex) parks there. A scheduler goroutine
// waits until the whole bubble is quiescent and then releases exactly one
// parked goroutine, chosen by the run's chooser. One goroutine released at a
// time makes the interleaving a function of the tape (the Go runtime's own
// choice among runnable goroutines is not: runtime.Gosched goes through the
// global run queue, whose polling depends on process history).

type parkedG struct {
	ch   chan struct{}
	site string
	goid uint64
}

// goID returns the runtime's id of the calling goroutine. Ids are handed out
// in creation order, so within a run they order goroutines canonically even
// when the runtime (a GC-triggered preemption moves a goroutine to the global
// run queue) lets them reach their scheduling points in a different order.
func goID() uint64 {
	var buf [64]byte
	n := runtime.Stack(buf[:], false)
	// "goroutine 123 [running]:"
	var id uint64
	for _, c := range buf[len("goroutine "):n] {
		if c < '0' || c > '9' {
			break
		}
		id = id*10 + uint64(c-'0')
	}
	return id
}

type schedule struct {
	e       *Env
	parked  []*parkedG
	enabled bool
	signal  chan struct{}
}

// active is the schedule of the WithSchedule scope in progress, if any. Runs
// are strictly sequential within a worker process, and everything that touches
// it runs on the single P between two blocking operations.
var active *schedule

// YieldPoint parks the calling goroutine until the scheduler releases it; it
// returns at once outside a WithSchedule scope.
func YieldPoint(site string) {
	s := active
	if s == nil || !s.enabled {
		if RaceBuild {
			// the race-detector pass has no seeded scheduler; let the other
			// goroutines of a concurrent phase in, so that accesses that are not
			// ordered by a lock actually come in both orders
			runtime.Gosched()
		}
		return
	}
	p := &parkedG{ch: make(chan struct{}), site: site, goid: goID()}
	if s.e.Verbose {
		var buf [2048]byte
		n := runtime.Stack(buf[:], false)
		var fns []string
		for _, l := range strings.Split(string(buf[:n]), "\n") {
			if l != "" && l[0] != '\t' && !strings.HasPrefix(l, "goroutine ") && !strings.Contains(l, "verif/sim") && !strings.Contains(l, "vsync.") {
				if i := strings.LastIndex(l, "("); i > 0 {
					l = l[:i]
				}
				fns = append(fns, l[strings.LastIndex(l, "/")+1:])
			}
		}
		if len(fns) > 3 {
			fns = fns[:3]
		}
		p.site = site + ":" + strings.Join(fns, "<")
	}
	s.parked = append(s.parked, p)
	select {
	case s.signal <- struct{}{}:
	default:
	}
	<-p.ch
}

// WithSchedule runs fn (on the calling goroutine, which takes part like any
// other) with the scheduler on. The first maxChoices choices between two or
// more parked goroutines are drawn from the tape; later ones release the
// longest-parked goroutine.
func (e *Env) WithSchedule(maxChoices int, fn func()) {
	if active != nil || !LockYields {
		// no nesting; and without the instrumented flavour a goroutine parked
		// at a seam may hold a real sync.Mutex, on which the others would block
		// in a way testing/synctest does not count as quiescent
		fn()
		return
	}
	// goroutines started earlier that have not had the processor yet (the run
	// goroutine rarely blocks) get it now, not at some point inside the scope
	synctest.Wait()
	s := &schedule{e: e, enabled: true, signal: make(chan struct{}, 1)}
	stop := make(chan struct{})
	done := make(chan struct{})
	choices := 0
	active = s
	setLockHook(true)
	go func() {
		defer close(done)
		for {
			synctest.Wait()
			select {
			case <-stop:
				return
			default:
			}
			if len(s.parked) == 0 {
				select {
				case <-s.signal:
				case <-stop:
					return
				}
				continue
			}
			// canonical order: by creation, not by arrival
			sort.Slice(s.parked, func(a, b int) bool { return s.parked[a].goid < s.parked[b].goid })
			i := 0
			if len(s.parked) > 1 && choices < maxChoices {
				i = e.Intn(len(s.parked))
				choices++
			}
			if e.Verbose {
				var desc []string
				for _, q := range s.parked {
					desc = append(desc, fmt.Sprintf("g%d@%s", q.goid-s.parked[0].goid, q.site))
				}
				e.Logf("sched: %v -> %d", desc, i)
			}
			p := s.parked[i]
			s.parked = append(s.parked[:i], s.parked[i+1:]...)
			e.Probes["sched_points"]++
			close(p.ch)
		}
	}()
	func() {
		defer func() {
			// switch the scheduler off and let everybody run on
			s.enabled = false
			setLockHook(false)
			active = nil
			close(stop)
			for _, p := range s.parked {
				close(p.ch)
			}
			s.parked = nil
			<-done
		}()
		fn()
	}()
	e.Probes["sched_choices"] += choices
}
