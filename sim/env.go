// Package sim holds the pieces every simulated run shares: the single source
// of choices (PRNG or recorded tape), the event trace, probes / fault counters,
// violation reporting and the per-run result record.
//
// One integer decides everything: a run is a pure function of (property,
// run seed) or, in replay mode, of (property, tape). Logging never draws and
// never reads a clock.
package sim

import (
	"encoding/json"
	"fmt"
	"hash/fnv"
	"math/rand/v2"
	"sort"
	"strings"
	"sync"
)

// A Violation is a failed invariant. Invariant is a stable identifier (used
// to decide whether a minimisation candidate "fails the same way" and to match
// known findings); Sig is a short, history-specific signature; Detail is for
// humans.
type Violation struct {
	Invariant string `json:"invariant"`
	Sig       string `json:"sig"`
	Detail    string `json:"detail"`
	Step      int    `json:"step"`
}

// Record is the JSON line a worker prints for every run.
type Record struct {
	Property   string         `json:"property"`
	Seed       uint64         `json:"seed"`
	Index      uint64         `json:"index"`
	Flavour    string         `json:"flavour,omitempty"`
	OK         bool           `json:"ok"`
	Violation  *Violation     `json:"violation,omitempty"`
	Infra      string         `json:"infra,omitempty"` // harness trouble, never a violation
	Probes     map[string]int `json:"probes,omitempty"`
	Faults     map[string]int `json:"faults,omitempty"`
	Shape      string         `json:"shape"`
	Nontrivial bool           `json:"nontrivial"`
	Steps      int            `json:"steps"`
	SimMS      int64          `json:"sim_ms"`
	WallUS     int64          `json:"wall_us"`
	TapeLen    int            `json:"tape_len"`
	Tape       []uint32       `json:"tape,omitempty"`
	Minimised  bool           `json:"minimised,omitempty"`
	MinTape    []uint32       `json:"min_tape,omitempty"`
	MinTrace   []string       `json:"min_trace,omitempty"`
	MinDetail  string         `json:"min_detail,omitempty"`
	Trace      []string       `json:"trace,omitempty"`
	TraceHash  string         `json:"trace_hash,omitempty"`
}

type stop struct{ v *Violation }

// Env is handed to a property's run function.
type Env struct {
	Property string
	Seed     uint64
	Index    uint64 // run index within the batch (selects enumerated partitions)
	Verbose  bool   // keep the full trace (replay / sample runs)

	rng    *rand.Rand
	replay bool
	in     []uint32
	pos    int
	tape   []uint32

	Probes map[string]int
	Faults map[string]int

	trace     []string
	traceHash uint64
	traceN    int
	shape     uint64
	step      int

	Nontrivial bool

	// mu guards the counters, the trace and the step number: handler
	// goroutines of the system under test call into them through the recording
	// wrappers (the single-P execution model makes this safe already; the lock
	// keeps the race-detector flavour quiet about the harness)
	mu        sync.Mutex
	violation *Violation
	infra     string

	cleanup []func()
	// BeforeCleanup, if set, receives the run's record before the cleanup
	// functions run.
	BeforeCleanup func(Record)
}

// NewEnv returns an Env drawing from a PRNG seeded by seed.
func NewEnv(prop string, seed uint64) *Env {
	e := &Env{Property: prop, Seed: seed}
	e.rng = rand.New(rand.NewPCG(seed, 0x9e3779b97f4a7c15^seed))
	e.init()
	return e
}

// NewReplayEnv returns an Env answering every draw from tape; past the end it
// answers 0, which by convention is always the plainest choice.
func NewReplayEnv(prop string, seed uint64, tape []uint32) *Env {
	e := &Env{Property: prop, Seed: seed, replay: true, in: tape}
	e.init()
	return e
}

func (e *Env) init() {
	e.Probes = map[string]int{}
	e.Faults = map[string]int{}
	e.traceHash = 14695981039346656037
	e.shape = 14695981039346656037
}

// Intn draws an integer in [0,n). n<=1 draws nothing and returns 0.
func (e *Env) Intn(n int) int {
	if n <= 1 {
		return 0
	}
	var v uint32
	if e.replay {
		if e.pos < len(e.in) {
			v = e.in[e.pos] % uint32(n)
		}
		e.pos++
	} else {
		v = uint32(e.rng.IntN(n))
	}
	e.tape = append(e.tape, v)
	return int(v)
}

// Range draws an integer in [lo,hi] (inclusive); the plainest choice is lo.
func (e *Env) Range(lo, hi int) int {
	if hi <= lo {
		return lo
	}
	return lo + e.Intn(hi-lo+1)
}

// Chance is true with probability num/den; the plainest choice is false.
func (e *Env) Chance(num, den int) bool {
	if num <= 0 {
		return false
	}
	// value 0 must mean "false" so that an exhausted tape injects nothing
	return e.Intn(den) >= den-num
}

// Pick draws an index weighted by w; index 0 is the plainest.
func (e *Env) Pick(w ...int) int {
	total := 0
	for _, x := range w {
		total += x
	}
	if total <= 0 {
		return 0
	}
	v := e.Intn(total)
	for i, x := range w {
		if v < x {
			return i
		}
		v -= x
	}
	return len(w) - 1
}

// Bytes draws n pseudo-random bytes (one tape entry per 3 bytes).
func (e *Env) Bytes(n int) []byte {
	b := make([]byte, n)
	for i := 0; i < n; i += 3 {
		v := e.Intn(1 << 24)
		for j := 0; j < 3 && i+j < n; j++ {
			b[i+j] = byte(v >> (8 * j))
		}
	}
	return b
}

// Perm draws a permutation of [0,n); the plainest is the identity.
func (e *Env) Perm(n int) []int {
	p := make([]int, n)
	for i := range p {
		p[i] = i
	}
	for i := 0; i < n-1; i++ {
		j := i + e.Intn(n-i)
		p[i], p[j] = p[j], p[i]
	}
	return p
}

// Tape returns the draws made so far.
func (e *Env) Tape() []uint32 { return e.tape }

// Step advances the global event sequence number and returns it.
func (e *Env) Step() int {
	e.mu.Lock()
	defer e.mu.Unlock()
	e.step++
	return e.step
}

// Now returns the current global event sequence number.
func (e *Env) Seq() int {
	e.mu.Lock()
	defer e.mu.Unlock()
	return e.step
}

// Logf appends to the event trace. It never draws and never reads a clock.
func (e *Env) Logf(format string, args ...any) {
	e.mu.Lock()
	defer e.mu.Unlock()
	var s string
	if e.Verbose || e.traceN < 400 {
		s = fmt.Sprintf(format, args...)
	} else {
		// still hash something stable without formatting cost
		s = format
	}
	h := fnv.New64a()
	h.Write([]byte(s))
	e.traceHash = (e.traceHash ^ h.Sum64()) * 1099511628211
	e.traceN++
	if e.Verbose || len(e.trace) < 400 {
		e.trace = append(e.trace, fmt.Sprintf("%04d %s", e.step, s))
	}
}

// Shape folds tokens into the abstract-trace hash used to count distinct
// executions (event kinds, depth buckets, regimes, fault kinds — not ids).
func (e *Env) Shape(tokens ...string) {
	e.mu.Lock()
	defer e.mu.Unlock()
	for _, t := range tokens {
		for i := 0; i < len(t); i++ {
			e.shape = (e.shape ^ uint64(t[i])) * 1099511628211
		}
		e.shape = (e.shape ^ 0xff) * 1099511628211
	}
}

// Probe counts that a rare condition was reached.
func (e *Env) Probe(name string) {
	e.mu.Lock()
	e.Probes[name]++
	e.mu.Unlock()
}

// Fault counts that a fault actually fired.
func (e *Env) Fault(kind string) {
	e.mu.Lock()
	e.Faults[kind]++
	e.mu.Unlock()
	e.Shape("F:" + kind)
}

// Violationf records a failed invariant and ends the run.
func (e *Env) Violationf(invariant, sig, format string, args ...any) {
	v := &Violation{Invariant: invariant, Sig: sig, Detail: fmt.Sprintf(format, args...), Step: e.step}
	e.Logf("VIOLATION %s [%s] %s", invariant, sig, v.Detail)
	panic(stop{v})
}

// Infraf records harness trouble (never reported as a violation) and ends the run.
func (e *Env) Infraf(format string, args ...any) {
	e.infra = fmt.Sprintf(format, args...)
	panic(stop{nil})
}

// OnCleanup registers fn to run when the run ends (in reverse order).
func (e *Env) OnCleanup(fn func()) { e.cleanup = append(e.cleanup, fn) }

// Guard runs fn and converts a panic raised in coreutils code into a
// violation of invariant; other panics propagate.
func (e *Env) Guard(invariant string, what string, fn func()) {
	defer func() {
		if r := recover(); r != nil {
			if _, ok := r.(stop); ok {
				panic(r)
			}
			st := stack()
			if PanicInSUT(st) {
				e.Violationf(invariant, "panic:"+what, "%s panicked: %v\n%s", what, r, trimStack(st))
			}
			panic(r)
		}
	}()
	fn()
}

// Result builds the record after the run function returned or panicked.
func (e *Env) result() Record {
	r := Record{
		Property:   e.Property,
		Seed:       e.Seed,
		Index:      e.Index,
		OK:         e.violation == nil && e.infra == "",
		Violation:  e.violation,
		Infra:      e.infra,
		Probes:     e.Probes,
		Faults:     e.Faults,
		Shape:      fmt.Sprintf("%016x", e.shape),
		Nontrivial: e.Nontrivial,
		Steps:      e.step,
		TapeLen:    len(e.tape),
		TraceHash:  fmt.Sprintf("%016x", e.traceHash),
	}
	if e.Verbose || e.violation != nil {
		r.Trace = e.trace
	}
	if e.violation != nil {
		r.Tape = e.tape
	}
	return r
}

// Execute runs fn under the violation/panic protocol and returns the record.
// A panic raised from coreutils code is a violation ("panic" invariant of the
// property); a panic from harness code is infrastructure trouble.
func Execute(e *Env, fn func(*Env)) (rec Record) {
	defer func() {
		if e.BeforeCleanup != nil {
			// the outcome is fixed now; closing what the run opened can still
			// get stuck on something the system under test left behind
			e.BeforeCleanup(e.result())
		}
		for i := len(e.cleanup) - 1; i >= 0; i-- {
			func() {
				defer func() { recover() }()
				e.cleanup[i]()
			}()
		}
		rec = e.result()
	}()
	defer func() {
		if r := recover(); r != nil {
			if s, ok := r.(stop); ok {
				e.violation = s.v
				return
			}
			st := stack()
			if PanicInSUT(st) {
				e.violation = &Violation{
					Invariant: e.Property + ".panic",
					Sig:       "panic:" + firstSUTFrame(st),
					Detail:    fmt.Sprintf("panic: %v\n%s", r, trimStack(st)),
					Step:      e.step,
				}
				e.Logf("VIOLATION panic %v", r)
				return
			}
			e.infra = fmt.Sprintf("harness panic: %v\n%s", r, trimStack(st))
		}
	}()
	fn(e)
	return
}

// JSON encodes a record on one line.
func (r Record) JSON() string {
	b, err := json.Marshal(r)
	if err != nil {
		return fmt.Sprintf(`{"infra":%q}`, err.Error())
	}
	return string(b)
}

// SortedKeys is a helper for deterministic map iteration.
func SortedKeys[V any](m map[string]V) []string {
	ks := make([]string, 0, len(m))
	for k := range m {
		ks = append(ks, k)
	}
	sort.Strings(ks)
	return ks
}

func trimStack(st string) string {
	lines := strings.Split(st, "\n")
	if len(lines) > 40 {
		lines = lines[:40]
	}
	return strings.Join(lines, "\n")
}
