//go:build !race

package sim

// RaceBuild reports whether this binary was built with the race detector.
const RaceBuild = false
