package sim

import (
	"runtime"
	"strings"
)

func stack() string {
	buf := make([]byte, 64<<10)
	n := runtime.Stack(buf, false)
	return string(buf[:n])
}

// frames returns the function names of a runtime.Stack dump, innermost first,
// starting below the panic machinery.
func frames(st string) []string {
	var out []string
	lines := strings.Split(st, "\n")
	seenPanic := false
	for _, l := range lines {
		if l == "" || l[0] == '\t' || strings.HasPrefix(l, "goroutine ") {
			continue
		}
		fn := l
		if i := strings.LastIndex(fn, "("); i > 0 {
			fn = fn[:i]
		}
		if !seenPanic {
			if strings.HasPrefix(fn, "panic") || strings.HasPrefix(fn, "runtime.gopanic") {
				seenPanic = true
			}
			continue
		}
		out = append(out, fn)
	}
	return out
}

func isRuntime(fn string) bool {
	return strings.HasPrefix(fn, "runtime.") || strings.HasPrefix(fn, "runtime/")
}

const sutPrefix = "go.sia.tech/coreutils"

// PanicInSUT reports whether the innermost non-runtime frame below the panic
// belongs to coreutils, or to core / stdlib code called (transitively, with no
// harness frame in between) from coreutils.
func PanicInSUT(st string) bool {
	for _, fn := range frames(st) {
		if isRuntime(fn) {
			continue
		}
		if strings.HasPrefix(fn, sutPrefix) {
			return true
		}
		if strings.HasPrefix(fn, "verif/") || strings.HasPrefix(fn, "verif.") {
			return false
		}
		// core, mux, stdlib, … : keep walking outwards to see who called it
	}
	return false
}

func firstSUTFrame(st string) string {
	for _, fn := range frames(st) {
		if strings.HasPrefix(fn, sutPrefix) {
			return strings.TrimPrefix(fn, sutPrefix)
		}
	}
	return "?"
}
