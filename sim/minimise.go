package sim

import "time"

// Minimise shrinks a failing tape with ddmin-style chunk deletion followed by
// value simplification. A candidate is kept only when the same invariant
// still fails. run must execute the property from the given tape in a fresh
// environment. Because an exhausted tape answers 0 (the plainest choice),
// every shortened tape is a valid run.
func Minimise(tape []uint32, invariant string, run func([]uint32) Record, maxCandidates int, budget time.Duration, now func() time.Time) ([]uint32, Record, int) {
	best := append([]uint32(nil), tape...)
	var bestRec Record
	tried := 0
	start := now()
	fails := func(c []uint32) (Record, bool) {
		tried++
		r := run(c)
		return r, r.Violation != nil && r.Violation.Invariant == invariant
	}
	exhausted := func() bool {
		return tried >= maxCandidates || now().Sub(start) > budget
	}
	// trailing zeros are implied
	trim := func(c []uint32) []uint32 {
		for len(c) > 0 && c[len(c)-1] == 0 {
			c = c[:len(c)-1]
		}
		return c
	}
	if r, ok := fails(trim(best)); ok {
		best, bestRec = trim(best), r
	} else if r, ok := fails(best); ok {
		bestRec = r
	} else {
		return tape, r, tried // does not reproduce; caller reports the original
	}
	// truncate: shortest failing prefix by bisection (suffix becomes zeros)
	lo, hi := 0, len(best)
	for lo < hi && !exhausted() {
		mid := (lo + hi) / 2
		if r, ok := fails(best[:mid]); ok {
			hi, bestRec = mid, r
		} else {
			lo = mid + 1
		}
	}
	best = trim(append([]uint32(nil), best[:hi]...))

	for chunk := len(best) / 2; chunk >= 1 && !exhausted(); chunk /= 2 {
		for i := 0; i+chunk <= len(best) && !exhausted(); {
			// try deleting [i,i+chunk)
			c := append(append([]uint32(nil), best[:i]...), best[i+chunk:]...)
			if r, ok := fails(c); ok {
				best, bestRec = trim(c), r
				continue
			}
			// try zeroing it instead (keeps alignment of later draws)
			allZero := true
			for _, v := range best[i : i+chunk] {
				if v != 0 {
					allZero = false
				}
			}
			if !allZero {
				c = append([]uint32(nil), best...)
				for j := i; j < i+chunk; j++ {
					c[j] = 0
				}
				if r, ok := fails(c); ok {
					best, bestRec = trim(c), r
				}
			}
			i += chunk
		}
	}
	// shrink individual values
	for i := 0; i < len(best) && !exhausted(); i++ {
		for best[i] > 0 && !exhausted() {
			c := append([]uint32(nil), best...)
			c[i] = best[i] / 2
			if r, ok := fails(c); ok {
				best, bestRec = trim(c), r
				if i >= len(best) {
					break
				}
			} else {
				break
			}
		}
	}
	return best, bestRec, tried
}
