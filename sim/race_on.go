//go:build race

package sim

// RaceBuild reports whether this binary was built with the race detector
// (the thorough tier's extra pass): concurrent phases then run on the plain
// flavour too, ordered by the runtime instead of the seeded scheduler.
const RaceBuild = true
