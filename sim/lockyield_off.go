//go:build !instrumented

package sim

// LockYields reports whether this build runs against the instrumented copy of
// coreutils, in which every Lock / Unlock of a coreutils mutex is a scheduling
// point of WithSchedule.
const LockYields = false

func setLockHook(on bool) {}
