//go:build instrumented

package sim

import "go.sia.tech/coreutils/vsync"

// LockYields reports whether this build runs against the instrumented copy of
// coreutils, in which every Lock / Unlock of a coreutils mutex is a scheduling
// point of WithSchedule.
const LockYields = true

func setLockHook(on bool) {
	if on {
		vsync.Yield = YieldPoint
	} else {
		vsync.Yield = nil
	}
}
