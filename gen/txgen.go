package gen

import (
	"fmt"

	"go.sia.tech/core/consensus"
	"go.sia.tech/core/types"

	"verif/sim"
)

// TxMix weights the transaction kinds a TxBuilder draws from.
type TxMix struct {
	Pay, SF, FCForm, FCRevise, FCProof, Arb, Foundation                                      int // v1
	V2Pay, V2Eph, V2SF, V2Form, V2Revise, V2Renew, V2Proof, V2Expire, V2Attest, V2Foundation int
}

// FullMix exercises every element-changing kind.
var FullMix = TxMix{
	Pay: 6, SF: 2, FCForm: 3, FCRevise: 3, FCProof: 3, Arb: 1, Foundation: 1,
	V2Pay: 6, V2Eph: 3, V2SF: 2, V2Form: 3, V2Revise: 3, V2Renew: 2, V2Proof: 3, V2Expire: 2, V2Attest: 1, V2Foundation: 1,
}

// PayMix only moves coins.
var PayMix = TxMix{Pay: 1, V2Pay: 3, V2Eph: 1}

// A TxBuilder builds transactions that are valid on top of a ledger, keeping
// track of what earlier transactions of the same block / set already used.
type TxBuilder struct {
	E   *sim.Env
	L   *Ledger
	Net *Net
	ms  *consensus.MidState
	cs  consensus.State

	Txns   []types.Transaction
	V2Txns []types.V2Transaction
	Kinds  []string

	usedSC map[types.SiacoinOutputID]bool
	usedSF map[types.SiafundOutputID]bool
	usedFC map[types.FileContractID]bool
	// v2 outputs created by earlier transactions of this builder that may be
	// spent as ephemeral inputs
	eph []types.SiacoinElement
	// the same for siafund outputs (spent only by V2SFEph)
	ephSF []types.SiafundElement

	// Payee, if set, receives a share of the outputs (the wallet under test)
	Payee *types.Address
	// OrderSafe gives every v1 contract a window end no other contract of the
	// whole run uses (see DESIGN section 6, C02 / F-C02-1)
	OrderSafe bool
	UsedEnds  map[uint64]bool // shared across the run
	Strict    bool            // generator self-check: a rejected transaction is harness trouble
	Rejected  int
	marks     map[string]bool
}

// NewTxBuilder returns a builder for transactions on top of l.
func NewTxBuilder(e *sim.Env, l *Ledger) *TxBuilder {
	return &TxBuilder{
		E: e, L: l, Net: l.Net, cs: l.State, ms: consensus.NewMidState(l.State),
		usedSC: map[types.SiacoinOutputID]bool{}, usedSF: map[types.SiafundOutputID]bool{}, usedFC: map[types.FileContractID]bool{},
		UsedEnds: map[uint64]bool{},
	}
}

func (b *TxBuilder) childHeight() uint64 { return b.L.ChildHeight() }

// V1OK / V2OK tell which transaction versions the next block accepts.
func (b *TxBuilder) V1OK() bool { return b.childHeight() < b.Net.Require() }
func (b *TxBuilder) V2OK() bool { return b.childHeight() >= b.Net.Allow() }

// spendable siacoin elements of actor a (mature, unused), sorted by id.
func (b *TxBuilder) spendable(a Actor) []types.SiacoinElement {
	var out []types.SiacoinElement
	for _, id := range b.L.SCIDs() {
		e := b.L.SC[id]
		if e.SiacoinOutput.Address == a.Addr && e.MaturityHeight <= b.childHeight() && !b.usedSC[id] && !e.SiacoinOutput.Value.IsZero() {
			out = append(out, e)
		}
	}
	return out
}

func (b *TxBuilder) pickActor() Actor { return b.Net.Actors[b.E.Intn(len(b.Net.Actors))] }

func (b *TxBuilder) payeeAddr() types.Address {
	if b.Payee != nil && b.E.Chance(1, 2) {
		return *b.Payee
	}
	switch b.E.Pick(6, 1) {
	case 1:
		return types.VoidAddress
	}
	return b.pickActor().Addr
}

// pickInputs draws 1..max spendable elements of some actor.
func (b *TxBuilder) pickInputs(max int) (Actor, []types.SiacoinElement) {
	start := b.E.Intn(len(b.Net.Actors))
	for i := range b.Net.Actors {
		a := b.Net.Actors[(start+i)%len(b.Net.Actors)]
		sp := b.spendable(a)
		if len(sp) == 0 {
			continue
		}
		n := b.E.Range(1, min(max, len(sp)))
		off := b.E.Intn(len(sp) - n + 1)
		return a, sp[off : off+n]
	}
	return Actor{}, nil
}

func sum(es []types.SiacoinElement) (c types.Currency) {
	for _, e := range es {
		c = c.Add(e.SiacoinOutput.Value)
	}
	return
}

// splitOutputs turns total into 1..3 outputs (no zero values).
func (b *TxBuilder) splitOutputs(total types.Currency, changeTo types.Address) []types.SiacoinOutput {
	if total.IsZero() {
		return nil
	}
	n := b.E.Range(1, 3)
	var outs []types.SiacoinOutput
	rest := total
	for i := 0; i < n-1; i++ {
		v := rest.Div64(uint64(b.E.Range(2, 5)))
		if v.IsZero() {
			break
		}
		outs = append(outs, types.SiacoinOutput{Address: b.payeeAddr(), Value: v})
		rest = rest.Sub(v)
	}
	outs = append(outs, types.SiacoinOutput{Address: changeTo, Value: rest})
	return outs
}

func (b *TxBuilder) fee() types.Currency {
	switch b.E.Pick(2, 3) {
	case 0:
		return types.ZeroCurrency
	}
	return types.Siacoins(1).Div64(uint64(b.E.Range(1, 100)))
}

// ---- v1 -----------------------------------------------------------------

func (b *TxBuilder) signV1(txn *types.Transaction, a Actor, parent types.Hash256) {
	txn.Signatures = append(txn.Signatures, types.TransactionSignature{
		ParentID:       parent,
		PublicKeyIndex: 0,
		CoveredFields:  types.CoveredFields{WholeTransaction: true},
	})
}

func (b *TxBuilder) finishV1Sigs(txn *types.Transaction, signers []Actor) {
	for i := range txn.Signatures {
		h := b.cs.WholeSigHash(*txn, txn.Signatures[i].ParentID, 0, 0, nil)
		s := signers[i].SK.SignHash(h)
		txn.Signatures[i].Signature = s[:]
	}
}

// commitV1 validates txn on the builder's mid-state and records it.
func (b *TxBuilder) commitV1(kind string, txn types.Transaction) bool {
	ts := b.L.TxnSupplement(txn)
	if err := consensus.ValidateTransaction(b.ms, txn, ts); err != nil {
		b.Rejected++
		b.E.Probe("gen_reject_" + kind)
		if b.Strict {
			b.E.Infraf("generator built an invalid %s transaction: %v", kind, err)
		}
		return false
	}
	b.ms.ApplyTransaction(txn, ts)
	for _, in := range txn.SiacoinInputs {
		b.usedSC[in.ParentID] = true
	}
	for _, in := range txn.SiafundInputs {
		b.usedSF[in.ParentID] = true
	}
	for _, r := range txn.FileContractRevisions {
		b.usedFC[r.ParentID] = true
	}
	for _, p := range txn.StorageProofs {
		b.usedFC[p.ParentID] = true
	}
	b.Txns = append(b.Txns, txn)
	b.Kinds = append(b.Kinds, kind)
	b.E.Probe("tx_" + kind)
	return true
}

// fundV1 adds inputs of one actor covering at least need and a change output.
func (b *TxBuilder) fundV1(txn *types.Transaction, need types.Currency) (Actor, bool) {
	a, ins := b.pickInputs(3)
	if len(ins) == 0 || sum(ins).Cmp(need) < 0 {
		return a, false
	}
	for _, in := range ins {
		txn.SiacoinInputs = append(txn.SiacoinInputs, types.SiacoinInput{ParentID: in.ID, UnlockConditions: a.UC})
	}
	if rest := sum(ins).Sub(need); !rest.IsZero() {
		txn.SiacoinOutputs = append(txn.SiacoinOutputs, b.splitOutputs(rest, a.Addr)...)
	}
	return a, true
}

func (b *TxBuilder) sigsForInputs(txn *types.Transaction, a Actor) []Actor {
	var signers []Actor
	for _, in := range txn.SiacoinInputs {
		b.signV1(txn, a, types.Hash256(in.ParentID))
		signers = append(signers, a)
	}
	return signers
}

// V1Pay builds a plain v1 siacoin transaction.
func (b *TxBuilder) V1Pay() bool {
	var txn types.Transaction
	fee := b.fee()
	if !fee.IsZero() {
		txn.MinerFees = []types.Currency{fee}
	}
	a, ok := b.fundV1(&txn, fee)
	if !ok {
		return false
	}
	signers := b.sigsForInputs(&txn, a)
	b.finishV1Sigs(&txn, signers)
	return b.commitV1("v1pay", txn)
}

// V1SF moves a siafund output (creating a claim output).
func (b *TxBuilder) V1SF() bool {
	for _, id := range b.L.SFIDs() {
		e := b.L.SF[id]
		a, ok := b.Net.ActorByAddr(e.SiafundOutput.Address)
		if !ok || b.usedSF[id] || b.E.Chance(1, 3) {
			continue
		}
		txn := types.Transaction{
			SiafundInputs: []types.SiafundInput{{ParentID: id, UnlockConditions: a.UC, ClaimAddress: b.payeeAddr()}},
		}
		if e.SiafundOutput.Value > 1 && b.E.Chance(1, 2) {
			txn.SiafundOutputs = []types.SiafundOutput{
				{Address: b.pickActor().Addr, Value: 1},
				{Address: a.Addr, Value: e.SiafundOutput.Value - 1},
			}
		} else {
			txn.SiafundOutputs = []types.SiafundOutput{{Address: b.pickActor().Addr, Value: e.SiafundOutput.Value}}
		}
		b.signV1(&txn, a, types.Hash256(id))
		b.finishV1Sigs(&txn, []Actor{a})
		return b.commitV1("v1sf", txn)
	}
	return false
}

func (b *TxBuilder) windowEnd(start uint64) (uint64, bool) {
	for try := 0; try < 12; try++ {
		end := start + uint64(b.E.Range(1, 6))
		if !b.OrderSafe || !b.UsedEnds[end] {
			b.UsedEnds[end] = true
			return end, true
		}
	}
	return 0, false
}

// payoutFor finds a payout P with P - tax(P) == target (tax = 3.9% rounded
// down to a multiple of 10000), by bounded search.
func (b *TxBuilder) payoutFor(target types.Currency) (types.Currency, bool) {
	guess := target.Mul64(1000).Div64(961)
	for i := 0; i < 40000; i++ {
		tax := b.cs.FileContractTax(types.FileContract{Payout: guess})
		net := guess.Sub(tax)
		switch c := net.Cmp(target); {
		case c == 0:
			return guess, true
		case c < 0:
			guess = guess.Add(target.Sub(net))
		default:
			guess = guess.Sub(net.Sub(target))
		}
	}
	return types.ZeroCurrency, false
}

// V1Form forms a v1 file contract (empty file, so any storage proof verifies).
func (b *TxBuilder) V1Form() bool {
	ch := b.childHeight()
	start := ch + uint64(b.E.Range(0, 4))
	end, ok := b.windowEnd(start)
	if !ok {
		return false
	}
	owner := b.pickActor()
	val := types.Siacoins(uint32(b.E.Range(1, 20)))
	payout, ok := b.payoutFor(val)
	if !ok {
		return false
	}
	half := val.Div64(2)
	fc := types.FileContract{
		Filesize:       0,
		FileMerkleRoot: types.Hash256{},
		WindowStart:    start,
		WindowEnd:      end,
		Payout:         payout,
		ValidProofOutputs: []types.SiacoinOutput{
			{Address: b.payeeAddr(), Value: half},
			{Address: b.payeeAddr(), Value: val.Sub(half)},
		},
		MissedProofOutputs: []types.SiacoinOutput{
			{Address: b.payeeAddr(), Value: half},
			{Address: b.payeeAddr(), Value: val.Sub(half)},
		},
		UnlockHash:     owner.UC.UnlockHash(),
		RevisionNumber: 0,
	}
	n := 1
	if !b.OrderSafe {
		n = b.E.Range(1, 3)
	}
	txn := types.Transaction{}
	need := types.ZeroCurrency
	for i := 0; i < n; i++ {
		c := fc
		c.FileMerkleRoot = types.Hash256{byte(i)}
		if i > 0 && b.E.Chance(1, 3) {
			if e2, ok := b.windowEnd(start); ok {
				c.WindowEnd = e2
			}
		}
		txn.FileContracts = append(txn.FileContracts, c)
		need = need.Add(payout)
	}
	fee := b.fee()
	if !fee.IsZero() {
		txn.MinerFees = []types.Currency{fee}
	}
	a, ok := b.fundV1(&txn, need.Add(fee))
	if !ok {
		return false
	}
	signers := b.sigsForInputs(&txn, a)
	b.finishV1Sigs(&txn, signers)
	return b.commitV1("v1form", txn)
}

// V1Revise revises a live v1 contract, with or without moving its window.
func (b *TxBuilder) V1Revise() bool {
	for _, id := range b.L.FCIDs() {
		e := b.L.FC[id]
		fc := e.FileContract
		if b.usedFC[id] || fc.WindowStart < b.childHeight() || b.E.Chance(1, 3) {
			continue
		}
		var owner Actor
		found := false
		for _, a := range b.Net.Actors {
			if a.UC.UnlockHash() == fc.UnlockHash {
				owner, found = a, true
			}
		}
		if !found {
			continue
		}
		rev := fc
		rev.RevisionNumber = fc.RevisionNumber + uint64(b.E.Range(1, 3))
		rev.ValidProofOutputs = append([]types.SiacoinOutput(nil), fc.ValidProofOutputs...)
		rev.MissedProofOutputs = append([]types.SiacoinOutput(nil), fc.MissedProofOutputs...)
		if len(rev.MissedProofOutputs) == 2 && b.E.Chance(1, 2) {
			// move a little value between the two missed outputs
			d := rev.MissedProofOutputs[0].Value.Div64(4)
			rev.MissedProofOutputs[0].Value = rev.MissedProofOutputs[0].Value.Sub(d)
			rev.MissedProofOutputs[1].Value = rev.MissedProofOutputs[1].Value.Add(d)
		}
		kind := "v1revise"
		if b.E.Chance(1, 2) {
			start := b.childHeight() + uint64(b.E.Range(0, 4))
			if end, ok := b.windowEnd(start); ok && end != fc.WindowEnd {
				rev.WindowStart, rev.WindowEnd = start, end
				kind = "v1revise_window"
			}
		}
		txn := types.Transaction{
			FileContractRevisions: []types.FileContractRevision{{ParentID: id, UnlockConditions: owner.UC, FileContract: rev}},
		}
		b.signV1(&txn, owner, types.Hash256(id))
		b.finishV1Sigs(&txn, []Actor{owner})
		return b.commitV1(kind, txn)
	}
	return false
}

// V1Proof submits a storage proof for a contract whose window is open.
func (b *TxBuilder) V1Proof() bool {
	for _, id := range b.L.FCIDs() {
		e := b.L.FC[id]
		fc := e.FileContract
		// the window id is the block at WindowStart-1, which must exist on the chain
		if b.usedFC[id] || fc.WindowStart > b.L.Height() || fc.WindowEnd <= b.L.Height() || b.E.Chance(1, 4) {
			continue
		}
		if fc.WindowEnd == b.childHeight() {
			// expires in this very block; a proof in the same block is legal and
			// pre-empts the expiry
			b.E.Probe("v1proof_at_window_end")
		}
		txn := types.Transaction{StorageProofs: []types.StorageProof{{ParentID: id}}}
		return b.commitV1("v1proof", txn)
	}
	return false
}

// V1Arb adds arbitrary data (funded so the transaction id is unique).
func (b *TxBuilder) V1Arb() bool {
	txn := types.Transaction{ArbitraryData: [][]byte{b.E.Bytes(b.E.Range(1, 40))}}
	a, ok := b.fundV1(&txn, types.ZeroCurrency)
	if !ok {
		return false
	}
	signers := b.sigsForInputs(&txn, a)
	b.finishV1Sigs(&txn, signers)
	return b.commitV1("v1arb", txn)
}

// V1Foundation updates the foundation addresses (must spend an output of the
// current primary or failsafe address).
func (b *TxBuilder) V1Foundation() bool {
	for _, addr := range []types.Address{b.cs.FoundationManagementAddress, b.cs.FoundationSubsidyAddress} {
		a, ok := b.Net.ActorByAddr(addr)
		if !ok {
			continue
		}
		sp := b.spendable(a)
		if len(sp) == 0 {
			continue
		}
		in := sp[b.E.Intn(len(sp))]
		upd := types.FoundationAddressUpdate{NewPrimary: b.pickActor().Addr, NewFailsafe: b.pickActor().Addr}
		data := append(types.SpecifierFoundation[:], Enc(upd)...)
		txn := types.Transaction{
			SiacoinInputs:  []types.SiacoinInput{{ParentID: in.ID, UnlockConditions: a.UC}},
			SiacoinOutputs: []types.SiacoinOutput{{Address: a.Addr, Value: in.SiacoinOutput.Value}},
			ArbitraryData:  [][]byte{data},
		}
		b.signV1(&txn, a, types.Hash256(in.ID))
		b.finishV1Sigs(&txn, []Actor{a})
		return b.commitV1("v1foundation", txn)
	}
	return false
}

// ---- v2 -----------------------------------------------------------------

func (b *TxBuilder) commitV2(kind string, txn types.V2Transaction) bool {
	if err := consensus.ValidateV2Transaction(b.ms, txn); err != nil {
		b.Rejected++
		b.E.Probe("gen_reject_" + kind)
		if b.Strict {
			b.E.Infraf("generator built an invalid %s transaction: %v", kind, err)
		}
		return false
	}
	b.ms.ApplyV2Transaction(txn)
	for _, in := range txn.SiacoinInputs {
		b.usedSC[in.Parent.ID] = true
	}
	for _, in := range txn.SiafundInputs {
		b.usedSF[in.Parent.ID] = true
	}
	for _, r := range txn.FileContractRevisions {
		b.usedFC[r.Parent.ID] = true
	}
	for _, r := range txn.FileContractResolutions {
		b.usedFC[r.Parent.ID] = true
	}
	for i := range txn.SiacoinOutputs {
		if _, ok := b.Net.ActorByAddr(txn.SiacoinOutputs[i].Address); ok {
			b.eph = append(b.eph, txn.EphemeralSiacoinOutput(i))
		}
	}
	for i := range txn.SiafundOutputs {
		if _, ok := b.Net.ActorByAddr(txn.SiafundOutputs[i].Address); ok {
			b.ephSF = append(b.ephSF, txn.EphemeralSiafundOutput(i))
		}
	}
	b.V2Txns = append(b.V2Txns, txn)
	b.Kinds = append(b.Kinds, kind)
	b.E.Probe("tx_" + kind)
	return true
}

// SignV2 signs every siacoin / siafund input of txn with the owning actor.
func (b *TxBuilder) SignV2(txn *types.V2Transaction) {
	h := b.cs.InputSigHash(*txn)
	for i := range txn.SiacoinInputs {
		if a, ok := b.Net.ActorByAddr(txn.SiacoinInputs[i].Parent.SiacoinOutput.Address); ok {
			txn.SiacoinInputs[i].SatisfiedPolicy = types.SatisfiedPolicy{Policy: a.Policy, Signatures: []types.Signature{a.SK.SignHash(h)}}
		}
	}
	for i := range txn.SiafundInputs {
		if a, ok := b.Net.ActorByAddr(txn.SiafundInputs[i].Parent.SiafundOutput.Address); ok {
			txn.SiafundInputs[i].SatisfiedPolicy = types.SatisfiedPolicy{Policy: a.Policy, Signatures: []types.Signature{a.SK.SignHash(h)}}
		}
	}
}

// fundV2 adds inputs covering need plus change outputs. ephemeral selects an
// output created earlier by this builder instead of a confirmed one.
func (b *TxBuilder) fundV2(txn *types.V2Transaction, need types.Currency, ephemeral bool) (Actor, bool) {
	if ephemeral {
		for i := len(b.eph) - 1; i >= 0; i-- {
			e := b.eph[i]
			if b.usedSC[e.ID] || e.SiacoinOutput.Value.Cmp(need) < 0 {
				continue
			}
			a, _ := b.Net.ActorByAddr(e.SiacoinOutput.Address)
			txn.SiacoinInputs = append(txn.SiacoinInputs, types.V2SiacoinInput{Parent: e.Copy()})
			if rest := e.SiacoinOutput.Value.Sub(need); !rest.IsZero() {
				txn.SiacoinOutputs = append(txn.SiacoinOutputs, b.splitOutputs(rest, a.Addr)...)
			}
			return a, true
		}
		return Actor{}, false
	}
	a, ins := b.pickInputs(3)
	if len(ins) == 0 || sum(ins).Cmp(need) < 0 {
		return a, false
	}
	for _, in := range ins {
		txn.SiacoinInputs = append(txn.SiacoinInputs, types.V2SiacoinInput{Parent: in.Copy()})
	}
	if rest := sum(ins).Sub(need); !rest.IsZero() {
		txn.SiacoinOutputs = append(txn.SiacoinOutputs, b.splitOutputs(rest, a.Addr)...)
	}
	return a, true
}

// V2Pay builds a v2 siacoin transaction; eph spends an ephemeral parent.
func (b *TxBuilder) V2Pay(eph bool) bool {
	var txn types.V2Transaction
	txn.MinerFee = b.fee()
	if _, ok := b.fundV2(&txn, txn.MinerFee, eph); !ok {
		return false
	}
	b.SignV2(&txn)
	if eph {
		return b.commitV2("v2eph", txn)
	}
	return b.commitV2("v2pay", txn)
}

// V2SF moves a siafund output with a v2 transaction.
func (b *TxBuilder) V2SF() bool {
	for _, id := range b.L.SFIDs() {
		e := b.L.SF[id]
		a, ok := b.Net.ActorByAddr(e.SiafundOutput.Address)
		if !ok || b.usedSF[id] || b.E.Chance(1, 3) {
			continue
		}
		txn := types.V2Transaction{
			SiafundInputs:  []types.V2SiafundInput{{Parent: e.Copy(), ClaimAddress: b.payeeAddr()}},
			SiafundOutputs: []types.SiafundOutput{{Address: b.pickActor().Addr, Value: e.SiafundOutput.Value}},
		}
		_ = a
		b.SignV2(&txn)
		return b.commitV2("v2sf", txn)
	}
	return false
}

// V2SFEph moves a siafund output created by an earlier transaction of this
// builder (an ephemeral siafund parent). It draws nothing when there is none.
func (b *TxBuilder) V2SFEph() bool {
	for i := len(b.ephSF) - 1; i >= 0; i-- {
		e := b.ephSF[i]
		if b.usedSF[e.ID] {
			continue
		}
		txn := types.V2Transaction{
			SiafundInputs:  []types.V2SiafundInput{{Parent: e.Copy(), ClaimAddress: b.payeeAddr()}},
			SiafundOutputs: []types.SiafundOutput{{Address: b.pickActor().Addr, Value: e.SiafundOutput.Value}},
		}
		b.SignV2(&txn)
		return b.commitV2("v2sfeph", txn)
	}
	return false
}

func (b *TxBuilder) signContract(fc *types.V2FileContract) bool {
	r, ok1 := b.Net.ActorByKey(fc.RenterPublicKey)
	h, ok2 := b.Net.ActorByKey(fc.HostPublicKey)
	if !ok1 || !ok2 {
		return false
	}
	sh := b.cs.ContractSigHash(*fc)
	fc.RenterSignature = r.SK.SignHash(sh)
	fc.HostSignature = h.SK.SignHash(sh)
	return true
}

// leaf / root of the one-leaf file every generated v2 contract stores
var v2Leaf = func() (l [64]byte) { copy(l[:], "verif storage proof leaf"); return }()

func (b *TxBuilder) newV2Contract(renter, host Actor) types.V2FileContract {
	ch := b.childHeight()
	proof := ch + uint64(b.E.Range(0, 5))
	exp := proof + uint64(b.E.Range(1, 4))
	rv := types.Siacoins(uint32(b.E.Range(1, 30)))
	hv := types.Siacoins(uint32(b.E.Range(0, 20)))
	fc := types.V2FileContract{
		Capacity:         64,
		Filesize:         64,
		FileMerkleRoot:   b.cs.StorageProofLeafHash(v2Leaf[:]),
		ProofHeight:      proof,
		ExpirationHeight: exp,
		RenterOutput:     types.SiacoinOutput{Address: renter.Addr, Value: rv},
		HostOutput:       types.SiacoinOutput{Address: host.Addr, Value: hv},
		MissedHostValue:  hv.Div64(2),
		TotalCollateral:  hv.Div64(3),
		RenterPublicKey:  renter.PK,
		HostPublicKey:    host.PK,
	}
	if b.Payee != nil {
		switch b.E.Pick(2, 1, 1) {
		case 1:
			fc.RenterOutput.Address = *b.Payee
		case 2:
			fc.HostOutput.Address = *b.Payee
		}
	}
	if b.E.Chance(1, 4) {
		fc.Filesize = 0 // empty contract: an expiration resolves it as valid
		fc.FileMerkleRoot = types.Hash256{}
	}
	return fc
}

// V2Form forms a v2 contract.
func (b *TxBuilder) V2Form() bool {
	renter, host := b.pickActor(), b.pickActor()
	fc := b.newV2Contract(renter, host)
	b.signContract(&fc)
	txn := types.V2Transaction{FileContracts: []types.V2FileContract{fc}, MinerFee: b.fee()}
	need := fc.RenterOutput.Value.Add(fc.HostOutput.Value).Add(b.cs.V2FileContractTax(fc)).Add(txn.MinerFee)
	if _, ok := b.fundV2(&txn, need, false); !ok {
		return false
	}
	b.SignV2(&txn)
	return b.commitV2("v2form", txn)
}

func (b *TxBuilder) pickV2Contract(pred func(types.V2FileContractElement) bool) (types.V2FileContractElement, bool) {
	for _, id := range b.L.V2FCIDs() {
		e := b.L.V2FC[id]
		if b.usedFC[id] || !pred(e) || b.E.Chance(1, 4) {
			continue
		}
		return e.Copy(), true
	}
	return types.V2FileContractElement{}, false
}

// V2Revise revises a live v2 contract.
func (b *TxBuilder) V2Revise() bool {
	e, ok := b.pickV2Contract(func(e types.V2FileContractElement) bool { return e.V2FileContract.ProofHeight >= b.childHeight() })
	if !ok {
		return false
	}
	rev := e.V2FileContract
	rev.RevisionNumber += uint64(b.E.Range(1, 3))
	d := rev.RenterOutput.Value.Div64(uint64(b.E.Range(2, 6)))
	rev.RenterOutput.Value = rev.RenterOutput.Value.Sub(d)
	rev.HostOutput.Value = rev.HostOutput.Value.Add(d)
	if b.E.Chance(1, 2) {
		rev.MissedHostValue = rev.MissedHostValue.Div64(2)
	}
	if b.E.Chance(1, 3) {
		rev.ProofHeight = max(rev.ProofHeight, b.childHeight()) + uint64(b.E.Range(0, 2))
		rev.ExpirationHeight = rev.ProofHeight + uint64(b.E.Range(1, 3))
	}
	if !b.signContract(&rev) {
		return false
	}
	txn := types.V2Transaction{
		FileContractRevisions: []types.V2FileContractRevision{{Parent: e, Revision: rev}},
		MinerFee:              b.fee(),
	}
	if !txn.MinerFee.IsZero() {
		if _, ok := b.fundV2(&txn, txn.MinerFee, false); !ok {
			txn.MinerFee = types.ZeroCurrency
		}
	}
	b.SignV2(&txn)
	return b.commitV2("v2revise", txn)
}

// V2Renew renews a live v2 contract.
func (b *TxBuilder) V2Renew() bool {
	e, ok := b.pickV2Contract(func(e types.V2FileContractElement) bool { return true })
	if !ok {
		return false
	}
	fc := e.V2FileContract
	renter, ok1 := b.Net.ActorByKey(fc.RenterPublicKey)
	host, ok2 := b.Net.ActorByKey(fc.HostPublicKey)
	if !ok1 || !ok2 {
		return false
	}
	nc := b.newV2Contract(renter, host)
	nc.RenterOutput.Address, nc.HostOutput.Address = fc.RenterOutput.Address, fc.HostOutput.Address
	b.signContract(&nc)
	newCost := nc.RenterOutput.Value.Add(nc.HostOutput.Value).Add(b.cs.V2FileContractTax(nc))
	ren := types.V2FileContractRenewal{
		FinalRenterOutput: fc.RenterOutput,
		FinalHostOutput:   fc.HostOutput,
		NewContract:       nc,
	}
	switch b.E.Pick(1, 1, 1) {
	case 1: // partial rollover
		ren.RenterRollover = fc.RenterOutput.Value.Div64(2)
		ren.FinalRenterOutput.Value = fc.RenterOutput.Value.Sub(ren.RenterRollover)
	case 2: // full rollover
		ren.RenterRollover = fc.RenterOutput.Value
		ren.FinalRenterOutput.Value = types.ZeroCurrency
		ren.HostRollover = fc.HostOutput.Value
		ren.FinalHostOutput.Value = types.ZeroCurrency
	}
	rollover := ren.RenterRollover.Add(ren.HostRollover)
	if rollover.Cmp(newCost) > 0 {
		ren.RenterRollover, ren.HostRollover = types.ZeroCurrency, types.ZeroCurrency
		ren.FinalRenterOutput.Value, ren.FinalHostOutput.Value = fc.RenterOutput.Value, fc.HostOutput.Value
		rollover = types.ZeroCurrency
	}
	sh := b.cs.RenewalSigHash(ren)
	ren.RenterSignature = renter.SK.SignHash(sh)
	ren.HostSignature = host.SK.SignHash(sh)
	txn := types.V2Transaction{
		FileContractResolutions: []types.V2FileContractResolution{{Parent: e, Resolution: &ren}},
		MinerFee:                b.fee(),
	}
	need := newCost.Sub(rollover).Add(txn.MinerFee)
	if !need.IsZero() {
		if _, ok := b.fundV2(&txn, need, false); !ok {
			return false
		}
	}
	b.SignV2(&txn)
	return b.commitV2("v2renew", txn)
}

// V2Proof submits a storage proof for a v2 contract at or after its proof height.
func (b *TxBuilder) V2Proof() bool {
	e, ok := b.pickV2Contract(func(e types.V2FileContractElement) bool {
		fc := e.V2FileContract
		_, have := b.L.CIE[fc.ProofHeight]
		return have && fc.Filesize == 64 && fc.ProofHeight <= b.L.Height()
	})
	if !ok {
		return false
	}
	sp := &types.V2StorageProof{ProofIndex: b.L.CIE[e.V2FileContract.ProofHeight].Copy(), Leaf: v2Leaf}
	txn := types.V2Transaction{
		FileContractResolutions: []types.V2FileContractResolution{{Parent: e, Resolution: sp}},
	}
	return b.commitV2("v2proof", txn)
}

// V2Expire resolves an expired v2 contract.
func (b *TxBuilder) V2Expire() bool {
	e, ok := b.pickV2Contract(func(e types.V2FileContractElement) bool { return e.V2FileContract.ExpirationHeight < b.childHeight() })
	if !ok {
		return false
	}
	txn := types.V2Transaction{
		FileContractResolutions: []types.V2FileContractResolution{{Parent: e, Resolution: &types.V2FileContractExpiration{}}},
	}
	return b.commitV2("v2expire", txn)
}

// V2Attest adds an attestation.
func (b *TxBuilder) V2Attest() bool {
	a := b.pickActor()
	att := types.Attestation{PublicKey: a.PK, Key: fmt.Sprintf("k%d", b.E.Intn(1000)), Value: b.E.Bytes(b.E.Range(0, 16))}
	att.Signature = a.SK.SignHash(b.cs.AttestationSigHash(att))
	txn := types.V2Transaction{Attestations: []types.Attestation{att}}
	return b.commitV2("v2attest", txn)
}

// V2Foundation changes the foundation address.
func (b *TxBuilder) V2Foundation() bool {
	a, ok := b.Net.ActorByAddr(b.cs.FoundationManagementAddress)
	if !ok {
		return false
	}
	sp := b.spendable(a)
	if len(sp) == 0 {
		return false
	}
	in := sp[b.E.Intn(len(sp))]
	na := b.pickActor().Addr
	txn := types.V2Transaction{
		SiacoinInputs:        []types.V2SiacoinInput{{Parent: in.Copy()}},
		SiacoinOutputs:       []types.SiacoinOutput{{Address: a.Addr, Value: in.SiacoinOutput.Value}},
		NewFoundationAddress: &na,
	}
	b.SignV2(&txn)
	return b.commitV2("v2foundation", txn)
}

// Draw adds one transaction of a kind drawn from mix (restricted to what the
// next block accepts). It reports whether a transaction was added.
func (b *TxBuilder) Draw(m TxMix) bool {
	type k struct {
		w  int
		fn func() bool
	}
	var ks []k
	if b.V1OK() {
		ks = append(ks, k{m.Pay, b.V1Pay}, k{m.SF, b.V1SF}, k{m.FCForm, b.V1Form}, k{m.FCRevise, b.V1Revise},
			k{m.FCProof, b.V1Proof}, k{m.Arb, b.V1Arb}, k{m.Foundation, b.V1Foundation})
	}
	if b.V2OK() {
		ks = append(ks, k{m.V2Pay, func() bool { return b.V2Pay(false) }}, k{m.V2Eph, func() bool { return b.V2Pay(true) }},
			k{m.V2SF, b.V2SF}, k{m.V2Form, b.V2Form}, k{m.V2Revise, b.V2Revise}, k{m.V2Renew, b.V2Renew},
			k{m.V2Proof, b.V2Proof}, k{m.V2Expire, b.V2Expire}, k{m.V2Attest, b.V2Attest}, k{m.V2Foundation, b.V2Foundation})
	}
	if len(ks) == 0 {
		return false
	}
	ws := make([]int, len(ks))
	for i := range ks {
		ws[i] = ks[i].w
	}
	return ks[b.E.Pick(ws...)].fn()
}

// Adopt makes the builder treat the given (already accepted) transactions as
// part of its set: their inputs count as used and their outputs are available
// as ephemeral parents.
func (b *TxBuilder) Adopt(txns []types.Transaction, v2txns []types.V2Transaction) {
	for _, txn := range txns {
		ts := b.L.TxnSupplement(txn)
		b.ms.ApplyTransaction(txn, ts)
		for _, in := range txn.SiacoinInputs {
			b.usedSC[in.ParentID] = true
		}
		for _, in := range txn.SiafundInputs {
			b.usedSF[in.ParentID] = true
		}
		for _, r := range txn.FileContractRevisions {
			b.usedFC[r.ParentID] = true
		}
		for _, p := range txn.StorageProofs {
			b.usedFC[p.ParentID] = true
		}
		b.Txns = append(b.Txns, txn)
	}
	for _, txn := range v2txns {
		b.ms.ApplyV2Transaction(txn)
		for _, in := range txn.SiacoinInputs {
			b.usedSC[in.Parent.ID] = true
		}
		for _, in := range txn.SiafundInputs {
			b.usedSF[in.Parent.ID] = true
		}
		for _, r := range txn.FileContractRevisions {
			b.usedFC[r.Parent.ID] = true
		}
		for _, r := range txn.FileContractResolutions {
			b.usedFC[r.Parent.ID] = true
		}
		for i := range txn.SiacoinOutputs {
			if _, ok := b.Net.ActorByAddr(txn.SiacoinOutputs[i].Address); ok {
				b.eph = append(b.eph, txn.EphemeralSiacoinOutput(i))
			}
		}
		b.V2Txns = append(b.V2Txns, txn)
	}
}

// Avoid makes the builder keep away from everything the given transactions
// touch, without making their outputs available: for transactions whose
// proofs may be out of date.
func (b *TxBuilder) Avoid(txns []types.Transaction, v2txns []types.V2Transaction) {
	for _, txn := range txns {
		for _, in := range txn.SiacoinInputs {
			b.usedSC[in.ParentID] = true
		}
		for _, in := range txn.SiafundInputs {
			b.usedSF[in.ParentID] = true
		}
		for _, r := range txn.FileContractRevisions {
			b.usedFC[r.ParentID] = true
		}
		for _, p := range txn.StorageProofs {
			b.usedFC[p.ParentID] = true
		}
	}
	for _, txn := range v2txns {
		for _, in := range txn.SiacoinInputs {
			b.usedSC[in.Parent.ID] = true
		}
		for _, in := range txn.SiafundInputs {
			b.usedSF[in.Parent.ID] = true
		}
		for _, r := range txn.FileContractRevisions {
			b.usedFC[r.Parent.ID] = true
		}
		for _, r := range txn.FileContractResolutions {
			b.usedFC[r.Parent.ID] = true
		}
	}
}

// FundV2 adds confirmed inputs covering need (plus change) to txn.
func (b *TxBuilder) FundV2(txn *types.V2Transaction, need types.Currency) bool {
	_, ok := b.fundV2(txn, need, false)
	return ok
}

// CommitV2 validates txn on the builder's mid-state and records it.
func (b *TxBuilder) CommitV2(kind string, txn types.V2Transaction) bool { return b.commitV2(kind, txn) }

// MarkUsed makes the builder consider a confirmed siacoin element as spent.
func (b *TxBuilder) MarkUsed(id types.SiacoinOutputID) { b.usedSC[id] = true }

// Mark / Probed let callers remember per-builder facts.
func (b *TxBuilder) Mark(name string) {
	if b.marks == nil {
		b.marks = map[string]bool{}
	}
	b.marks[name] = true
}

// Probed reports whether Mark(name) was called.
func (b *TxBuilder) Probed(name string) bool { return b.marks[name] }
