// Package gen holds the workload generators and the independent reference
// ledger. Everything here is built on go.sia.tech/core only (plus the static
// network parameters of chain.TestnetZen); no coreutils logic is involved in
// deciding what the truth is.
package gen

import (
	"time"

	"go.sia.tech/core/consensus"
	"go.sia.tech/core/types"
	"go.sia.tech/coreutils/chain"

	"verif/sim"
)

// An Actor is a generator-owned key.
type Actor struct {
	SK     types.PrivateKey
	PK     types.PublicKey
	UC     types.UnlockConditions
	Addr   types.Address
	Policy types.SpendPolicy
}

// NewActor derives an actor from 32 seed bytes.
func NewActor(seed []byte) Actor {
	sk := types.NewPrivateKeyFromSeed(seed)
	pk := sk.PublicKey()
	uc := types.StandardUnlockConditions(pk)
	return Actor{SK: sk, PK: pk, UC: uc, Addr: uc.UnlockHash(), Policy: types.SpendPolicy{Type: types.PolicyTypeUnlockConditions(uc)}}
}

// NetOpts steers NewNet.
type NetOpts struct {
	Actors       int    // default 4
	Regime       string // "", "v1", "overlap", "v2"  ("" = drawn)
	MaxHeight    int    // how tall chains may get (sizes the genesis timestamp); default 80
	AllowLo      int    // range for the allow height when regime is overlap (default 3..14)
	AllowHi      int
	NoFoundation bool
}

// Net is a generated consensus network plus the keys that own its genesis.
type Net struct {
	Network *consensus.Network
	Genesis types.Block
	Actors  []Actor
	Regime  string
}

// NewNet draws a network. now must be the (simulated) current time.
func NewNet(e *sim.Env, now time.Time, o NetOpts) *Net {
	if o.Actors == 0 {
		o.Actors = 4
	}
	if o.MaxHeight == 0 {
		o.MaxHeight = 80
	}
	if o.AllowLo == 0 {
		o.AllowLo, o.AllowHi = 3, 14
	}
	n, genesis := chain.TestnetZen()
	n.Name = "verif"
	n.InitialTarget = types.BlockID{0xFF}
	n.BlockInterval = []time.Duration{time.Second, 10 * time.Second, 10 * time.Minute, 24 * time.Hour}[e.Pick(4, 2, 2, 1)]
	n.MaturityDelay = uint64(e.Range(1, 6))
	n.HardforkDevAddr.Height = 1
	n.HardforkTax.Height = 1
	n.HardforkStorageProof.Height = 1
	n.HardforkOak.Height = 1
	n.HardforkASIC.Height = 1
	n.HardforkFoundation.Height = 1

	regime := o.Regime
	if regime == "" {
		regime = []string{"overlap", "v2", "v1"}[e.Pick(6, 2, 1)]
	}
	switch regime {
	case "v1":
		n.HardforkV2.AllowHeight = 100000
		n.HardforkV2.RequireHeight = 100010
		n.HardforkV2.FinalCutHeight = 100020
	case "v2":
		n.HardforkV2.AllowHeight = 1
		n.HardforkV2.RequireHeight = 1
		n.HardforkV2.FinalCutHeight = uint64(e.Range(1, 12))
	default:
		a := uint64(e.Range(o.AllowLo, o.AllowHi))
		r := a + uint64(e.Range(0, 10))
		n.HardforkV2.AllowHeight = a
		n.HardforkV2.RequireHeight = r
		n.HardforkV2.FinalCutHeight = r + uint64(e.Range(0, 8))
	}
	// ephemeral-output rule switches somewhere around the allow height
	switch e.Pick(2, 1, 1) {
	case 0:
		n.HardforkV2.EphemeralOutputHeight = n.HardforkV2.AllowHeight
	case 1:
		n.HardforkV2.EphemeralOutputHeight = n.HardforkV2.AllowHeight + uint64(e.Range(1, 6))
	default:
		n.HardforkV2.EphemeralOutputHeight = 0
	}

	net := &Net{Network: n, Regime: regime}
	for i := 0; i < o.Actors; i++ {
		seed := e.Bytes(32)
		seed[31] ^= byte(i + 1) // distinct keys even on an exhausted (all-zero) tape
		net.Actors = append(net.Actors, NewActor(seed))
	}
	if !o.NoFoundation {
		n.HardforkFoundation.PrimaryAddress = net.Actors[0].Addr
		n.HardforkFoundation.FailsafeAddress = net.Actors[1%len(net.Actors)].Addr
	} else {
		n.HardforkFoundation.PrimaryAddress = types.VoidAddress
		n.HardforkFoundation.FailsafeAddress = types.VoidAddress
	}

	// genesis far enough in the past that chains of MaxHeight blocks spaced
	// up to 3 intervals apart never run into the future-timestamp limit
	gts := now.Add(-time.Duration(3*o.MaxHeight+10) * n.BlockInterval).Add(-time.Hour).Truncate(time.Second)
	n.HardforkOak.GenesisTimestamp = gts
	genesis.Timestamp = gts
	genesis.ParentID = types.BlockID{}
	genesis.Nonce = 0
	genesis.MinerPayouts = nil
	var scos []types.SiacoinOutput
	var sfos []types.SiafundOutput
	for i, a := range net.Actors {
		for j := 0; j < 5; j++ {
			scos = append(scos, types.SiacoinOutput{Address: a.Addr, Value: types.Siacoins(uint32(1000 * (j + 1) * (i + 1)))})
		}
		sfos = append(sfos, types.SiafundOutput{Address: a.Addr, Value: uint64(10000 / len(net.Actors))})
		sfos = append(sfos, types.SiafundOutput{Address: a.Addr, Value: 1})
	}
	genesis.Transactions = []types.Transaction{{SiacoinOutputs: scos, SiafundOutputs: sfos}}
	genesis.V2 = nil
	net.Genesis = genesis
	return net
}

// Allow / Require are shorthands.
func (n *Net) Allow() uint64   { return n.Network.HardforkV2.AllowHeight }
func (n *Net) Require() uint64 { return n.Network.HardforkV2.RequireHeight }

// ActorByAddr returns the actor owning addr.
func (n *Net) ActorByAddr(addr types.Address) (Actor, bool) {
	for _, a := range n.Actors {
		if a.Addr == addr {
			return a, true
		}
	}
	return Actor{}, false
}

// ActorByKey returns the actor with the given public key.
func (n *Net) ActorByKey(pk types.PublicKey) (Actor, bool) {
	for _, a := range n.Actors {
		if a.PK == pk {
			return a, true
		}
	}
	return Actor{}, false
}
