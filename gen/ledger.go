package gen

import (
	"bytes"
	"fmt"
	"sort"
	"time"

	"go.sia.tech/core/consensus"
	"go.sia.tech/core/types"
)

// Ledger is the independent reference ledger ("RefLedger") as of one block:
// the consensus state and every live element with a Merkle proof that is
// valid for that state. It is obtained by folding consensus.ValidateBlock /
// consensus.ApplyBlock along the path from genesis; no coreutils code is
// involved.
type Ledger struct {
	Net   *Net
	State consensus.State
	Path  []types.BlockID // block id by height, genesis first

	SC   map[types.SiacoinOutputID]types.SiacoinElement
	SF   map[types.SiafundOutputID]types.SiafundElement
	FC   map[types.FileContractID]types.FileContractElement
	V2FC map[types.FileContractID]types.V2FileContractElement
	CIE  map[uint64]types.ChainIndexElement

	// Expiring is the per-height list of v1 contract ids whose window ends
	// there, maintained with the discipline of a node that only ever applied
	// blocks (append on create / window change, swap-remove on removal). Its
	// order decides the order of ExpiringFileContracts in block supplements and
	// is therefore consensus relevant.
	Expiring map[uint64][]types.FileContractID
}

// NewLedger returns the ledger after the genesis block.
func NewLedger(net *Net) *Ledger {
	l := &Ledger{
		Net:      net,
		State:    net.Network.GenesisState(),
		SC:       map[types.SiacoinOutputID]types.SiacoinElement{},
		SF:       map[types.SiafundOutputID]types.SiafundElement{},
		FC:       map[types.FileContractID]types.FileContractElement{},
		V2FC:     map[types.FileContractID]types.V2FileContractElement{},
		CIE:      map[uint64]types.ChainIndexElement{},
		Expiring: map[uint64][]types.FileContractID{},
	}
	bs := consensus.V1BlockSupplement{Transactions: make([]consensus.V1TransactionSupplement, len(net.Genesis.Transactions))}
	cs, cau := consensus.ApplyBlock(l.State, net.Genesis, bs, time.Time{})
	n := l.clone()
	n.absorb(cs, cau, net.Genesis)
	return n
}

func (l *Ledger) clone() *Ledger {
	n := &Ledger{
		Net:      l.Net,
		State:    l.State,
		Path:     append([]types.BlockID(nil), l.Path...),
		SC:       make(map[types.SiacoinOutputID]types.SiacoinElement, len(l.SC)+8),
		SF:       make(map[types.SiafundOutputID]types.SiafundElement, len(l.SF)+2),
		FC:       make(map[types.FileContractID]types.FileContractElement, len(l.FC)+2),
		V2FC:     make(map[types.FileContractID]types.V2FileContractElement, len(l.V2FC)+2),
		CIE:      make(map[uint64]types.ChainIndexElement, len(l.CIE)+1),
		Expiring: make(map[uint64][]types.FileContractID, len(l.Expiring)),
	}
	for k, v := range l.SC {
		n.SC[k] = v.Copy()
	}
	for k, v := range l.SF {
		n.SF[k] = v.Copy()
	}
	for k, v := range l.FC {
		n.FC[k] = v.Copy()
	}
	for k, v := range l.V2FC {
		n.V2FC[k] = v.Copy()
	}
	for k, v := range l.CIE {
		n.CIE[k] = v.Copy()
	}
	for k, v := range l.Expiring {
		n.Expiring[k] = append([]types.FileContractID(nil), v...)
	}
	return n
}

// TargetTimestamp is the ancestor timestamp consensus.ApplyBlock wants for a
// child of this ledger's tip. All generated networks activate Oak at height 1,
// where it has no influence; we still pass what a node would.
func (l *Ledger) TargetTimestamp() time.Time {
	if l.State.Index.Height > l.Net.Network.HardforkOak.Height {
		return time.Time{}
	}
	return l.Net.Genesis.Timestamp
}

// Height is the tip height.
func (l *Ledger) Height() uint64 { return l.State.Index.Height }

// ChildHeight is the height of the next block.
func (l *Ledger) ChildHeight() uint64 { return l.State.Index.Height + 1 }

// TxnSupplement builds the v1 supplement for txn against this ledger (the
// elements its inputs reference, as far as they are confirmed).
func (l *Ledger) TxnSupplement(txn types.Transaction) (ts consensus.V1TransactionSupplement) {
	if l.ChildHeight() >= l.Net.Require() {
		return
	}
	for _, sci := range txn.SiacoinInputs {
		if e, ok := l.SC[sci.ParentID]; ok {
			ts.SiacoinInputs = append(ts.SiacoinInputs, e.Copy())
		}
	}
	for _, sfi := range txn.SiafundInputs {
		if e, ok := l.SF[sfi.ParentID]; ok {
			ts.SiafundInputs = append(ts.SiafundInputs, e.Copy())
		}
	}
	for _, fcr := range txn.FileContractRevisions {
		if e, ok := l.FC[fcr.ParentID]; ok {
			ts.RevisedFileContracts = append(ts.RevisedFileContracts, e.Copy())
		}
	}
	for _, sp := range txn.StorageProofs {
		if e, ok := l.FC[sp.ParentID]; ok {
			if ws := e.FileContract.WindowStart; ws >= 1 && ws-1 < uint64(len(l.Path)) {
				ts.StorageProofs = append(ts.StorageProofs, consensus.V1StorageProofSupplement{
					FileContract: e.Copy(),
					WindowID:     l.Path[ws-1],
				})
			}
		}
	}
	return
}

// BlockSupplement builds the v1 supplement for a child block b.
func (l *Ledger) BlockSupplement(b types.Block) consensus.V1BlockSupplement {
	bs := consensus.V1BlockSupplement{Transactions: make([]consensus.V1TransactionSupplement, len(b.Transactions))}
	// consensus demands an empty supplement from the require height on
	// (childHeight >= RequireHeight); v1 contracts whose window ends there or
	// later are never resolved
	if l.ChildHeight() >= l.Net.Require() {
		return bs
	}
	for i, txn := range b.Transactions {
		bs.Transactions[i] = l.TxnSupplement(txn)
	}
	for _, id := range l.Expiring[l.ChildHeight()] {
		e, ok := l.FC[id]
		if !ok {
			panic(fmt.Sprintf("gen: expiring list names unknown contract %v", id))
		}
		bs.ExpiringFileContracts = append(bs.ExpiringFileContracts, e.Copy())
	}
	return bs
}

// Apply validates b as a child of the ledger's tip and returns the ledger
// after it. The receiver is not modified.
func (l *Ledger) Apply(b types.Block) (*Ledger, consensus.ApplyUpdate, error) {
	if b.ParentID != l.State.Index.ID {
		return nil, consensus.ApplyUpdate{}, fmt.Errorf("block %v does not attach to %v", b.ID(), l.State.Index)
	}
	bs := l.BlockSupplement(b)
	if err := consensus.ValidateBlock(l.State, b, bs); err != nil {
		return nil, consensus.ApplyUpdate{}, err
	}
	cs, cau := consensus.ApplyBlock(l.State, b, bs, l.TargetTimestamp())
	n := l.clone()
	n.absorb(cs, cau, b)
	return n, cau, nil
}

func (l *Ledger) removeExpiration(id types.FileContractID, h uint64) {
	list := l.Expiring[h]
	for i := range list {
		if list[i] == id {
			list[i] = list[len(list)-1]
			list = list[:len(list)-1]
			if len(list) == 0 {
				delete(l.Expiring, h)
			} else {
				l.Expiring[h] = list
			}
			return
		}
	}
	panic("gen: missing file contract expiration")
}

func (l *Ledger) absorb(cs consensus.State, cau consensus.ApplyUpdate, b types.Block) {
	l.State = cs
	l.Path = append(l.Path, b.ID())
	// bring every surviving proof up to date
	for k, e := range l.SC {
		cau.UpdateElementProof(&e.StateElement)
		l.SC[k] = e
	}
	for k, e := range l.SF {
		cau.UpdateElementProof(&e.StateElement)
		l.SF[k] = e
	}
	for k, e := range l.FC {
		cau.UpdateElementProof(&e.StateElement)
		l.FC[k] = e
	}
	for k, e := range l.V2FC {
		cau.UpdateElementProof(&e.StateElement)
		l.V2FC[k] = e
	}
	for k, e := range l.CIE {
		cau.UpdateElementProof(&e.StateElement)
		l.CIE[k] = e
	}
	for _, d := range cau.SiacoinElementDiffs() {
		switch {
		case d.Created && d.Spent:
		case d.Spent:
			delete(l.SC, d.SiacoinElement.ID)
		default:
			l.SC[d.SiacoinElement.ID] = d.SiacoinElement.Copy()
		}
	}
	for _, d := range cau.SiafundElementDiffs() {
		switch {
		case d.Created && d.Spent:
		case d.Spent:
			delete(l.SF, d.SiafundElement.ID)
		default:
			l.SF[d.SiafundElement.ID] = d.SiafundElement.Copy()
		}
	}
	for _, d := range cau.FileContractElementDiffs() {
		fce := d.FileContractElement
		switch {
		case d.Created && d.Resolved:
		case d.Resolved:
			delete(l.FC, fce.ID)
			l.removeExpiration(fce.ID, fce.FileContract.WindowEnd)
		case d.Revision != nil:
			rev := fce.Copy()
			rev.FileContract = *d.Revision
			l.FC[fce.ID] = rev
			if rev.FileContract.WindowEnd != fce.FileContract.WindowEnd {
				l.removeExpiration(fce.ID, fce.FileContract.WindowEnd)
				l.Expiring[rev.FileContract.WindowEnd] = append(l.Expiring[rev.FileContract.WindowEnd], fce.ID)
			}
		default:
			l.FC[fce.ID] = fce.Copy()
			l.Expiring[fce.FileContract.WindowEnd] = append(l.Expiring[fce.FileContract.WindowEnd], fce.ID)
		}
	}
	for _, d := range cau.V2FileContractElementDiffs() {
		fce := d.V2FileContractElement
		switch {
		case d.Resolution != nil:
			delete(l.V2FC, fce.ID)
		case d.Revision != nil:
			rev := fce.Copy()
			rev.V2FileContract = *d.Revision
			l.V2FC[fce.ID] = rev
		default:
			l.V2FC[fce.ID] = fce.Copy()
		}
	}
	cie := cau.ChainIndexElement()
	l.CIE[cie.ChainIndex.Height] = cie.Copy()
}

// ---- deterministic accessors ---------------------------------------------

// SCIDs returns the siacoin element ids in sorted order.
func (l *Ledger) SCIDs() []types.SiacoinOutputID {
	ids := make([]types.SiacoinOutputID, 0, len(l.SC))
	for id := range l.SC {
		ids = append(ids, id)
	}
	sort.Slice(ids, func(i, j int) bool { return bytes.Compare(ids[i][:], ids[j][:]) < 0 })
	return ids
}

// SFIDs returns the siafund element ids in sorted order.
func (l *Ledger) SFIDs() []types.SiafundOutputID {
	ids := make([]types.SiafundOutputID, 0, len(l.SF))
	for id := range l.SF {
		ids = append(ids, id)
	}
	sort.Slice(ids, func(i, j int) bool { return bytes.Compare(ids[i][:], ids[j][:]) < 0 })
	return ids
}

// FCIDs returns the v1 contract ids in sorted order.
func (l *Ledger) FCIDs() []types.FileContractID {
	ids := make([]types.FileContractID, 0, len(l.FC))
	for id := range l.FC {
		ids = append(ids, id)
	}
	sort.Slice(ids, func(i, j int) bool { return bytes.Compare(ids[i][:], ids[j][:]) < 0 })
	return ids
}

// V2FCIDs returns the v2 contract ids in sorted order.
func (l *Ledger) V2FCIDs() []types.FileContractID {
	ids := make([]types.FileContractID, 0, len(l.V2FC))
	for id := range l.V2FC {
		ids = append(ids, id)
	}
	sort.Slice(ids, func(i, j int) bool { return bytes.Compare(ids[i][:], ids[j][:]) < 0 })
	return ids
}

// StateBytes is the canonical encoding of the consensus state.
func StateBytes(cs consensus.State) []byte {
	var buf bytes.Buffer
	e := types.NewEncoder(&buf)
	cs.EncodeTo(e)
	e.Flush()
	return buf.Bytes()
}

// Enc encodes any EncoderTo.
func Enc(v types.EncoderTo) []byte {
	var buf bytes.Buffer
	e := types.NewEncoder(&buf)
	v.EncodeTo(e)
	e.Flush()
	return buf.Bytes()
}

// VerifyProofs checks that every element of the ledger is present in the
// ledger's own accumulator (self-test of the reference ledger) by validating
// a synthetic v2 transaction's elements where that is possible.
func (l *Ledger) VerifyProofs() error {
	var txn types.V2Transaction
	for _, id := range l.SCIDs() {
		txn.SiacoinInputs = append(txn.SiacoinInputs, types.V2SiacoinInput{Parent: l.SC[id].Copy()})
	}
	for _, id := range l.SFIDs() {
		txn.SiafundInputs = append(txn.SiafundInputs, types.V2SiafundInput{Parent: l.SF[id].Copy()})
	}
	for _, id := range l.V2FCIDs() {
		txn.FileContractRevisions = append(txn.FileContractRevisions, types.V2FileContractRevision{Parent: l.V2FC[id].Copy()})
	}
	return l.State.Elements.ValidateTransactionElements(txn)
}
