package gen

import (
	"fmt"
	"time"

	"go.sia.tech/core/consensus"
	"go.sia.tech/core/types"

	"verif/sim"
)

// A Node is one block of the generated fork tree.
type Node struct {
	Block  types.Block
	ID     types.BlockID
	Parent *Node
	Height uint64
	// HState is the header-chain state (consensus.ApplyHeader along the
	// parents): what a node can know about a block it has not applied.
	HState consensus.State
	// L is the reference ledger after this block; nil when the block, or one
	// of its ancestors, is invalid.
	L *Ledger
	// Corrupt names the single-field corruption applied to this block ("" for
	// none). OrphanInvalid: the block already fails the context-free checks
	// (consensus.ValidateOrphan / future timestamp) and must be rejected at
	// submission.
	Corrupt       string
	OrphanInvalid bool
	Future        bool
	Children      []*Node
	Kinds         []string
	Seq           int
}

// Valid reports whether the block and all its ancestors are valid.
func (n *Node) Valid() bool { return n.L != nil }

// Index is the chain index of the node.
func (n *Node) Index() types.ChainIndex { return types.ChainIndex{Height: n.Height, ID: n.ID} }

// PathFromGenesis returns genesis..n.
func (n *Node) PathFromGenesis() []*Node {
	var p []*Node
	for x := n; x != nil; x = x.Parent {
		p = append(p, x)
	}
	for i, j := 0, len(p)-1; i < j; i, j = i+1, j-1 {
		p[i], p[j] = p[j], p[i]
	}
	return p
}

// Ancestor returns the ancestor at height h (or nil).
func (n *Node) Ancestor(h uint64) *Node {
	x := n
	for x != nil && x.Height > h {
		x = x.Parent
	}
	if x != nil && x.Height == h {
		return x
	}
	return nil
}

// IsAncestorOf reports whether n is on the path from genesis to d (inclusive).
func (n *Node) IsAncestorOf(d *Node) bool { return d.Ancestor(n.Height) == n }

// CommonAncestor returns the fork point of a and b.
func CommonAncestor(a, b *Node) *Node {
	for a.Height > b.Height {
		a = a.Parent
	}
	for b.Height > a.Height {
		b = b.Parent
	}
	for a != b {
		a, b = a.Parent, b.Parent
	}
	return a
}

// Tree is a generated fork tree.
type Tree struct {
	Net     *Net
	Genesis *Node
	Nodes   []*Node
	ByID    map[types.BlockID]*Node
	// UsedEnds is shared by all builders of the run (order-safe mode)
	UsedEnds map[uint64]bool
}

// NewTree returns a tree holding only the genesis block.
func NewTree(net *Net) *Tree {
	l := NewLedger(net)
	g := &Node{Block: net.Genesis, ID: net.Genesis.ID(), L: l, HState: l.State}
	return &Tree{Net: net, Genesis: g, Nodes: []*Node{g}, ByID: map[types.BlockID]*Node{g.ID: g}, UsedEnds: map[uint64]bool{}}
}

func (t *Tree) add(n *Node) *Node {
	if old, ok := t.ByID[n.ID]; ok {
		return old
	}
	n.Seq = len(t.Nodes)
	t.Nodes = append(t.Nodes, n)
	t.ByID[n.ID] = n
	n.Parent.Children = append(n.Parent.Children, n)
	return n
}

// ValidTips returns the valid leaves (nodes without valid children).
func (t *Tree) ValidTips() []*Node {
	var tips []*Node
	for _, n := range t.Nodes {
		if !n.Valid() {
			continue
		}
		leaf := true
		for _, c := range n.Children {
			if c.Valid() {
				leaf = false
			}
		}
		if leaf {
			tips = append(tips, n)
		}
	}
	return tips
}

// Heaviest returns the valid node with the most total work (first created wins ties).
func (t *Tree) Heaviest() *Node {
	best := t.Genesis
	for _, n := range t.Nodes {
		if n.Valid() && n.L.State.TotalWork.Cmp(best.L.State.TotalWork) > 0 {
			best = n
		}
	}
	return best
}

// Mine finds a nonce for b on top of parent state cs, starting from a drawn
// offset so that otherwise identical sibling blocks get distinct ids.
func Mine(e *sim.Env, cs consensus.State, b *types.Block) {
	f := cs.NonceFactor()
	b.Nonce = f * uint64(e.Intn(1<<16))
	for b.ID().CmpWork(cs.PoWTarget()) < 0 {
		b.Nonce += f
	}
}

func targetTimestampFor(net *Net, parent consensus.State) time.Time {
	if parent.Index.Height > net.Network.HardforkOak.Height {
		return time.Time{}
	}
	return net.Genesis.Timestamp
}

// BlockOpts steers Extend.
type BlockOpts struct {
	Mix       TxMix
	MaxTx     int
	Miner     types.Address
	Payee     *types.Address
	OrderSafe bool
	Strict    bool
	Now       time.Time // simulated now: timestamps stay below now+1h
	MinGap    bool      // timestamp = parent's (lowest legal drift)
}

// AssembleBlock wraps transactions into a mined child block of parent.
func AssembleBlock(e *sim.Env, net *Net, parent consensus.State, ts time.Time, miner types.Address, txns []types.Transaction, v2txns []types.V2Transaction, forceV2 bool) types.Block {
	ch := parent.Index.Height + 1
	b := types.Block{
		ParentID:     parent.Index.ID,
		Timestamp:    ts,
		MinerPayouts: []types.SiacoinOutput{{Address: miner, Value: parent.BlockReward()}},
		Transactions: txns,
	}
	for _, txn := range txns {
		b.MinerPayouts[0].Value = b.MinerPayouts[0].Value.Add(txn.TotalFees())
	}
	if ch >= net.Require() || (ch >= net.Allow() && (len(v2txns) > 0 || forceV2)) {
		b.V2 = &types.V2BlockData{Height: ch, Transactions: v2txns}
		for _, txn := range v2txns {
			b.MinerPayouts[0].Value = b.MinerPayouts[0].Value.Add(txn.MinerFee)
		}
		b.V2.Commitment = parent.Commitment(miner, b.Transactions, b.V2Transactions())
	}
	Mine(e, parent, &b)
	return b
}

// Timestamp draws a legal timestamp for a child of parent.
func (t *Tree) Timestamp(e *sim.Env, parent *Node, now time.Time, minGap bool) time.Time {
	iv := t.Net.Network.BlockInterval
	var d time.Duration
	if !minGap {
		d = []time.Duration{iv, 0, time.Second, iv / 2, 2 * iv, 3 * iv}[e.Pick(6, 1, 1, 2, 2, 1)]
	}
	ts := parent.Block.Timestamp.Add(d.Truncate(time.Second))
	if lim := now.Add(time.Hour); ts.After(lim) {
		ts = lim.Truncate(time.Second)
		if ts.Before(parent.Block.Timestamp) {
			ts = parent.Block.Timestamp
		}
	}
	return ts
}

// Extend builds a valid child of parent with drawn transactions.
func (t *Tree) Extend(e *sim.Env, parent *Node, o BlockOpts) *Node {
	if !parent.Valid() {
		return t.ExtendHeaderOnly(e, parent, o)
	}
	tb := NewTxBuilder(e, parent.L)
	tb.Payee, tb.OrderSafe, tb.UsedEnds, tb.Strict = o.Payee, o.OrderSafe, t.UsedEnds, o.Strict
	n := 0
	if o.MaxTx > 0 {
		n = e.Range(0, o.MaxTx)
	}
	for i := 0; i < n; i++ {
		tb.Draw(o.Mix)
	}
	ts := t.Timestamp(e, parent, o.Now, o.MinGap)
	b := AssembleBlock(e, t.Net, parent.L.State, ts, o.Miner, tb.Txns, tb.V2Txns, e.Chance(1, 2))
	l, _, err := parent.L.Apply(b)
	if err != nil {
		e.Infraf("generator produced an invalid block at height %d (kinds %v): %v", parent.Height+1, tb.Kinds, err)
	}
	node := &Node{Block: b, ID: b.ID(), Parent: parent, Height: parent.Height + 1, L: l, Kinds: tb.Kinds}
	node.HState = consensus.ApplyHeader(parent.HState, b.Header(), targetTimestampFor(t.Net, parent.HState))
	return t.add(node)
}

// ExtendHeaderOnly builds an empty, header-valid child (used on top of
// invalid blocks, whose full state does not exist).
func (t *Tree) ExtendHeaderOnly(e *sim.Env, parent *Node, o BlockOpts) *Node {
	ts := t.Timestamp(e, parent, o.Now, o.MinGap)
	ps := parent.HState
	if parent.Valid() {
		ps = parent.L.State
	}
	b := AssembleBlock(e, t.Net, ps, ts, o.Miner, nil, nil, true)
	node := &Node{Block: b, ID: b.ID(), Parent: parent, Height: parent.Height + 1}
	node.HState = consensus.ApplyHeader(parent.HState, b.Header(), targetTimestampFor(t.Net, parent.HState))
	if parent.Valid() {
		l, _, err := parent.L.Apply(b)
		if err != nil {
			e.Infraf("generator produced an invalid empty block: %v", err)
		}
		node.L = l
	}
	return t.add(node)
}

// AddForeign inserts a block built elsewhere (e.g. by coreutils.MineBlock)
// as a child of parent, validating it with the reference ledger.
func (t *Tree) AddForeign(parent *Node, b types.Block) (*Node, error) {
	if n, ok := t.ByID[b.ID()]; ok {
		return n, nil
	}
	node := &Node{Block: b, ID: b.ID(), Parent: parent, Height: parent.Height + 1}
	node.HState = consensus.ApplyHeader(parent.HState, b.Header(), targetTimestampFor(t.Net, parent.HState))
	if !parent.Valid() {
		return t.add(node), nil
	}
	l, _, err := parent.L.Apply(b)
	if err != nil {
		return nil, err
	}
	node.L = l
	return t.add(node), nil
}

// CorruptKinds lists the single-field corruptions.
var CorruptKinds = []string{"pow", "noncefactor", "ts_past", "ts_future", "payout", "payout_zero", "v2height", "commitment", "sig", "dup_txn", "overspend", "missing_input", "v1_after_require", "v2_before_allow", "weight"}

// Corrupt builds a corrupted twin of the valid node n (same parent). It
// returns nil when the drawn kind does not apply to this block.
func (t *Tree) Corrupt(e *sim.Env, n *Node, kind string, now time.Time) *Node {
	if n.Parent == nil || !n.Parent.Valid() {
		return nil
	}
	p := n.Parent
	ps := p.L.State
	b := n.Block
	// deep-ish copy of what we mutate
	b.MinerPayouts = append([]types.SiacoinOutput(nil), b.MinerPayouts...)
	b.Transactions = append([]types.Transaction(nil), b.Transactions...)
	if b.V2 != nil {
		v2 := *b.V2
		v2.Transactions = append([]types.V2Transaction(nil), v2.Transactions...)
		b.V2 = &v2
	}
	recommit := func() {
		b.MinerPayouts[0].Value = ps.BlockReward()
		for _, txn := range b.Transactions {
			b.MinerPayouts[0].Value = b.MinerPayouts[0].Value.Add(txn.TotalFees())
		}
		if b.V2 != nil {
			for _, txn := range b.V2.Transactions {
				b.MinerPayouts[0].Value = b.MinerPayouts[0].Value.Add(txn.MinerFee)
			}
			b.V2.Commitment = ps.Commitment(b.MinerPayouts[0].Address, b.Transactions, b.V2Transactions())
		}
	}
	remine := true
	switch kind {
	case "pow":
		remine = false
		f := ps.NonceFactor()
		b.Nonce = f * uint64(e.Intn(1<<16))
		for i := 0; b.ID().CmpWork(ps.PoWTarget()) >= 0; i++ {
			b.Nonce += f
			if i > 1<<20 {
				return nil
			}
		}
	case "noncefactor":
		if ps.NonceFactor() == 1 {
			return nil
		}
		remine = false
		b.Nonce = b.Nonce + 1
	case "ts_past":
		// strictly before the median of the previous timestamps
		med := medianTimestamp(ps)
		b.Timestamp = med.Add(-time.Second)
	case "ts_future":
		b.Timestamp = now.Add(3*time.Hour + time.Duration(e.Range(1, 600))*time.Second).Truncate(time.Second)
	case "payout":
		b.MinerPayouts[0].Value = b.MinerPayouts[0].Value.Add(types.NewCurrency64(1))
		remine = true
	case "payout_zero":
		b.MinerPayouts = append(b.MinerPayouts, types.SiacoinOutput{Address: types.VoidAddress})
		if b.V2 != nil {
			return nil
		}
	case "v2height":
		if b.V2 == nil {
			return nil
		}
		b.V2.Height += uint64(e.Range(1, 3))
	case "commitment":
		if b.V2 == nil {
			return nil
		}
		b.V2.Commitment[e.Intn(32)] ^= 1 << uint(e.Intn(8))
	case "sig":
		switch {
		case b.V2 != nil && len(b.V2.Transactions) > 0:
			i := e.Intn(len(b.V2.Transactions))
			txn := b.V2.Transactions[i].DeepCopy()
			if len(txn.SiacoinInputs) == 0 || len(txn.SiacoinInputs[0].SatisfiedPolicy.Signatures) == 0 {
				return nil
			}
			txn.SiacoinInputs[0].SatisfiedPolicy.Signatures[0][e.Intn(64)] ^= 1
			b.V2.Transactions[i] = txn
			recommit()
		case len(b.Transactions) > 0:
			i := e.Intn(len(b.Transactions))
			txn := b.Transactions[i]
			if len(txn.Signatures) == 0 {
				return nil
			}
			txn.Signatures = append([]types.TransactionSignature(nil), txn.Signatures...)
			sig := append([]byte(nil), txn.Signatures[0].Signature...)
			sig[e.Intn(len(sig))] ^= 1
			txn.Signatures[0].Signature = sig
			b.Transactions[i] = txn
			recommit()
		default:
			return nil
		}
	case "dup_txn":
		switch {
		case b.V2 != nil && len(b.V2.Transactions) > 0:
			i := e.Intn(len(b.V2.Transactions))
			if len(b.V2.Transactions[i].SiacoinInputs) == 0 {
				return nil
			}
			b.V2.Transactions = append(b.V2.Transactions, b.V2.Transactions[i].DeepCopy())
		case len(b.Transactions) > 0:
			i := e.Intn(len(b.Transactions))
			if len(b.Transactions[i].SiacoinInputs) == 0 {
				return nil
			}
			b.Transactions = append(b.Transactions, b.Transactions[i])
		default:
			return nil
		}
		recommit()
	case "overspend":
		switch {
		case b.V2 != nil && len(b.V2.Transactions) > 0:
			i := e.Intn(len(b.V2.Transactions))
			txn := b.V2.Transactions[i].DeepCopy()
			if len(txn.SiacoinOutputs) == 0 {
				return nil
			}
			txn.SiacoinOutputs[0].Value = txn.SiacoinOutputs[0].Value.Add(types.NewCurrency64(1))
			// re-sign so that only the value rule is broken
			tb := NewTxBuilder(e, p.L)
			tb.SignV2(&txn)
			b.V2.Transactions[i] = txn
		default:
			return nil
		}
		recommit()
	case "missing_input":
		if ps.Index.Height+1 >= t.Net.Require() {
			return nil
		}
		a := t.Net.Actors[0]
		var id types.SiacoinOutputID
		copy(id[:], e.Bytes(32))
		txn := types.Transaction{
			SiacoinInputs:  []types.SiacoinInput{{ParentID: id, UnlockConditions: a.UC}},
			SiacoinOutputs: []types.SiacoinOutput{{Address: a.Addr, Value: types.Siacoins(1)}},
		}
		b.Transactions = append(b.Transactions, txn)
		recommit()
	case "v1_after_require":
		if ps.Index.Height+1 < t.Net.Require() {
			return nil
		}
		b.Transactions = append(b.Transactions, types.Transaction{ArbitraryData: [][]byte{e.Bytes(8)}})
		recommit()
	case "v2_before_allow":
		if ps.Index.Height+1 >= t.Net.Allow() {
			return nil
		}
		b.V2 = &types.V2BlockData{Height: ps.Index.Height + 1, Transactions: []types.V2Transaction{{ArbitraryData: e.Bytes(8)}}}
		if len(b.MinerPayouts) != 1 {
			return nil
		}
		recommit()
	case "weight":
		if ps.Index.Height+1 >= t.Net.Require() {
			return nil
		}
		// a single v1 transaction heavier than the whole block allowance
		big := make([]byte, int(ps.MaxBlockWeight())+1000)
		b.Transactions = append(b.Transactions, types.Transaction{ArbitraryData: [][]byte{big}})
		recommit()
	default:
		panic("unknown corruption " + kind)
	}
	if remine {
		Mine(e, ps, &b)
	}
	id := b.ID()
	if _, ok := t.ByID[id]; ok {
		return nil
	}
	node := &Node{Block: b, ID: id, Parent: p, Height: p.Height + 1, Corrupt: kind}
	if err := consensus.ValidateOrphan(ps, b); err != nil {
		node.OrphanInvalid = true
	} else if l, _, err := p.L.Apply(b); err == nil {
		if kind != "ts_future" {
			return nil // the mutation did not make the block invalid
		}
		// valid by consensus, merely too far in the future for a node's clock
		node.Future = true
		node.L = l
	}
	if !node.OrphanInvalid {
		// header state exists only for blocks a node would store
		node.HState = consensus.ApplyHeader(p.HState, b.Header(), targetTimestampFor(t.Net, p.HState))
	}
	return t.add(node)
}

func medianTimestamp(s consensus.State) time.Time {
	n := int(s.Index.Height + 1)
	if n > len(s.PrevTimestamps) {
		n = len(s.PrevTimestamps)
	}
	ts := append([]time.Time(nil), s.PrevTimestamps[:n]...)
	for i := range ts {
		for j := i + 1; j < len(ts); j++ {
			if ts[j].Before(ts[i]) {
				ts[i], ts[j] = ts[j], ts[i]
			}
		}
	}
	if len(ts)%2 != 0 {
		return ts[len(ts)/2]
	}
	l, r := ts[len(ts)/2-1], ts[len(ts)/2]
	return l.Add(r.Sub(l) / 2)
}

// GrowOpts steers Grow.
type GrowOpts struct {
	Blocks    int
	Block     BlockOpts
	Corrupt   int // number of corrupted twins to plant
	ForkEvery int // roughly one fork per this many blocks (0 = 6)
	MinerPool []types.Address
	LongFork  bool     // allow forking far back
	Kinds     []string // corruption kinds to draw from (default: all)
}

// Grow extends the tree by o.Blocks valid blocks, forking now and then, and
// plants corrupted twins with header-valid descendants on top.
func (t *Tree) Grow(e *sim.Env, o GrowOpts) {
	if o.ForkEvery == 0 {
		o.ForkEvery = 6
	}
	cur := t.Heaviest()
	for i := 0; i < o.Blocks; i++ {
		bo := o.Block
		if len(o.MinerPool) > 0 {
			bo.Miner = o.MinerPool[e.Intn(len(o.MinerPool))]
		}
		switch e.Pick(o.ForkEvery*2, 1, 1) {
		case 1: // continue another tip
			tips := t.ValidTips()
			cur = tips[e.Intn(len(tips))]
		case 2: // fork off somewhere behind a tip
			tips := t.ValidTips()
			tip := tips[e.Intn(len(tips))]
			back := e.Range(1, 8)
			if o.LongFork && e.Chance(1, 4) {
				back = e.Range(1, int(tip.Height)+1)
			}
			for back > 0 && tip.Parent != nil {
				tip = tip.Parent
				back--
			}
			cur = tip
		}
		cur = t.Extend(e, cur, bo)
	}
	for i := 0; i < o.Corrupt; i++ {
		// choose a victim among non-genesis valid nodes
		var cands []*Node
		for _, n := range t.Nodes {
			if n.Valid() && n.Parent != nil && n.Corrupt == "" {
				cands = append(cands, n)
			}
		}
		if len(cands) == 0 {
			return
		}
		victim := cands[e.Intn(len(cands))]
		kinds := o.Kinds
		if len(kinds) == 0 {
			kinds = CorruptKinds
		}
		kind := kinds[e.Intn(len(kinds))]
		bad := t.Corrupt(e, victim, kind, o.Block.Now)
		if bad == nil {
			e.Probe("corrupt_skipped_" + kind)
			continue
		}
		e.Probe("corrupt_" + kind)
		// grow a (header-valid) chain on top so that the invalid block sits in
		// the middle of a heavier fork
		if !bad.OrphanInvalid {
			x := bad
			for j, n := 0, e.Range(0, 6); j < n; j++ {
				x = t.ExtendHeaderOnly(e, x, o.Block)
			}
		}
	}
}

// Describe is a short human-readable label for traces.
func (n *Node) Describe() string {
	s := fmt.Sprintf("#%d h=%d %x", n.Seq, n.Height, n.ID[:4])
	if n.Corrupt != "" {
		s += " corrupt=" + n.Corrupt
	}
	if !n.Valid() && n.Corrupt == "" {
		s += " on-invalid"
	}
	return s
}

// MakeDominant extends the heaviest valid chain until it is sufficiently
// heavier than every valid block that is not one of its ancestors, so that
// every honest node that knows the whole tree must end on it whatever it saw
// first. It returns the dominant tip.
func (t *Tree) MakeDominant(e *sim.Env, o BlockOpts) *Node {
	h := t.Heaviest()
	for i := 0; i < 8; i++ {
		ok := true
		for _, n := range t.Nodes {
			if !n.Valid() || n.IsAncestorOf(h) {
				continue
			}
			if !h.L.State.SufficientlyHeavierThan(n.L.State) {
				ok = false
				break
			}
		}
		if ok {
			return h
		}
		h = t.ExtendHeaderOnly(e, h, o)
	}
	return h
}

// KindsNoFuture is CorruptKinds without the clock-dependent one.
func KindsNoFuture() []string {
	var ks []string
	for _, k := range CorruptKinds {
		if k != "ts_future" {
			ks = append(ks, k)
		}
	}
	return ks
}
