#!/bin/sh
# usage: ./check.sh <Cxx> [quick|thorough] [--replay file]
# exit 0: property held on everything explored; 1: VIOLATION printed; 2: build/harness trouble
cd "$(dirname "$0")" || exit 2
. ./env.sh
prop="$1"; tier="${2:-quick}"
[ $# -ge 1 ] && shift
[ $# -ge 1 ] && shift
mkdir -p bin evidence replays
if ! $GO build -o bin/simcheck ./cmd/simcheck 2>bin/build.err; then
	cat bin/build.err >&2
	echo "check.sh: building the runner failed" >&2
	exit 2
fi
case "$1" in
--replay) exec bin/simcheck -property "$prop" -replay "$2" ;;
esac
exec bin/simcheck -property "$prop" -tier "$tier" "$@"
