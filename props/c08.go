package props

import (
	"bytes"
	"context"
	"fmt"
	"runtime/debug"
	"strings"
	"sync"
	"time"

	"go.sia.tech/core/consensus"
	proto4 "go.sia.tech/core/rhp/v4"
	"go.sia.tech/core/types"
	rhp4 "go.sia.tech/coreutils/rhp/v4"

	"verif/gen"
	"verif/sim"
	"verif/simrhp"
)

// hostSnapshot is everything a rejected request must leave untouched.
type hostSnapshot struct {
	contracts map[types.FileContractID]string
	accounts  map[proto4.Account]types.Currency
	pools     map[proto4.Account]types.Currency
	sectors   int
}

type c08Rig struct {
	*rhpRig
	hook      simrhp.Hook
	contract  rhp4.ContractRevision
	committed map[types.FileContractID]types.V2FileContract // last revision the host persisted
	model     []types.Hash256
	accounts  []types.PrivateKey
	pools     []types.PrivateKey
	balances  map[proto4.Account]types.Currency // harness ledger of accounts
	poolBal   map[proto4.Account]types.Currency
	attached  map[proto4.Account][]proto4.Account
	// recorded renter->host messages for replays
	recorded map[string][]proto4.Object
	lastReq  proto4.Object
	seenCall int
	onChain  bool
	short    bool // the contract's proof window can open during the run
}

func newC08Rig(e *sim.Env, inv string) *c08Rig {
	c := &c08Rig{committed: map[types.FileContractID]types.V2FileContract{}, balances: map[proto4.Account]types.Currency{}, poolBal: map[proto4.Account]types.Currency{}, attached: map[proto4.Account][]proto4.Account{}, recorded: map[string][]proto4.Object{}}
	c.rhpRig = newRHPRig(e, inv, simrhp.TypedRelay(func(n int, id types.Specifier, step int, st simrhp.Step, o proto4.Object, raw []byte) simrhp.Action {
		if c.hook != nil {
			return c.hook(n, id, step, st, o, raw)
		}
		return simrhp.Pass
	}))
	// 1 run in 4: a contract short enough for the run to reach its proof window
	dur := uint64(120)
	if e.Chance(1, 4) {
		dur = proto4.MinContractDuration + uint64(e.Range(0, 4))
		c.short = true
	}
	c.contract = c.form(types.Siacoins(20000), types.Siacoins(8000), dur)
	c.committed[c.contract.ID] = c.contract.Revision
	c.seenCall = len(c.contractor.calls)
	for i := 0; i < 3; i++ {
		c.accounts = append(c.accounts, c.newAccountKey())
	}
	for i := 0; i < 2; i++ {
		c.pools = append(c.pools, c.newAccountKey())
	}
	for i := 0; i < 8; i++ {
		s := testSector(i)
		c.sectors.EphemeralSectorStore.StoreSector(s.root, s.data, nil, 1<<40)
	}
	return c
}

func (c *c08Rig) snapshot() hostSnapshot {
	s := hostSnapshot{contracts: map[types.FileContractID]string{}, accounts: map[proto4.Account]types.Currency{}, pools: map[proto4.Account]types.Currency{}}
	for id := range c.committed {
		if st, err := c.hostState(id); err == nil {
			s.contracts[id] = fmt.Sprintf("%x|%v", gen.Enc(st.Revision), st.Roots)
		}
	}
	for _, k := range c.accounts {
		a := proto4.Account(k.PublicKey())
		s.accounts[a], _ = c.contractor.AccountBalance(a)
	}
	var ps []proto4.Account
	for _, k := range c.pools {
		ps = append(ps, proto4.Account(k.PublicKey()))
	}
	bs, _ := c.contractor.PoolBalances(ps)
	for i, p := range ps {
		s.pools[p] = bs[i]
	}
	s.sectors = len(c.sectors.calls)
	return s
}

func (a hostSnapshot) diff(b hostSnapshot) string {
	for id, v := range a.contracts {
		if b.contracts[id] != v {
			return fmt.Sprintf("contract %v changed", id)
		}
	}
	for k, v := range a.accounts {
		if !b.accounts[k].Equals(v) {
			return fmt.Sprintf("account %v balance %v -> %v", k, v, b.accounts[k])
		}
	}
	for k, v := range a.pools {
		if !b.pools[k].Equals(v) {
			return fmt.Sprintf("pool %v balance %v -> %v", k, v, b.pools[k])
		}
	}
	return ""
}

// checkRevision applies the per-revision rules of C08 to one persisted revision.
func (c *c08Rig) checkRevision(call contractorCall, expectedCost *types.Currency, expectedRisk *types.Currency) {
	e := c.e
	rev := *call.revision
	prev, ok := c.committed[call.id]
	if !ok {
		e.Violationf("C08.unknown-contract", call.method, "the host persisted a revision for contract %v it never formed", call.id)
	}
	inv := "C08." // invariant ids are stable strings
	if rev.RevisionNumber <= prev.RevisionNumber {
		e.Violationf(inv+"monotone", call.method, "%s persisted revision number %d after %d", call.method, rev.RevisionNumber, prev.RevisionNumber)
	}
	sigHash := (consensus.State{}).ContractSigHash(rev)
	if !prev.RenterPublicKey.VerifyHash(sigHash, rev.RenterSignature) {
		e.Violationf(inv+"doubly-signed", call.method+":renter", "%s persisted revision %d without a valid renter signature over exactly that revision", call.method, rev.RevisionNumber)
	}
	if !prev.HostPublicKey.VerifyHash(sigHash, rev.HostSignature) {
		e.Violationf(inv+"doubly-signed", call.method+":host", "%s persisted revision %d without a valid host signature over exactly that revision", call.method, rev.RevisionNumber)
	}
	switch {
	case rev.RenterPublicKey != prev.RenterPublicKey || rev.HostPublicKey != prev.HostPublicKey:
		e.Violationf(inv+"immutable-fields", "keys", "%s changed the contract keys", call.method)
	case rev.ProofHeight != prev.ProofHeight || rev.ExpirationHeight != prev.ExpirationHeight:
		e.Violationf(inv+"immutable-fields", "heights", "%s changed proof/expiration heights %d/%d -> %d/%d", call.method, prev.ProofHeight, prev.ExpirationHeight, rev.ProofHeight, rev.ExpirationHeight)
	case rev.TotalCollateral != prev.TotalCollateral:
		e.Violationf(inv+"immutable-fields", "collateral", "%s changed the total collateral", call.method)
	case rev.RenterOutput.Address != prev.RenterOutput.Address || rev.HostOutput.Address != prev.HostOutput.Address:
		e.Violationf(inv+"immutable-fields", "addresses", "%s changed a payout address", call.method)
	case rev.Capacity < prev.Capacity || rev.Filesize > rev.Capacity:
		e.Violationf(inv+"immutable-fields", "capacity", "%s: capacity %d -> %d, filesize %d", call.method, prev.Capacity, rev.Capacity, rev.Filesize)
	}
	if rev.RenterOutput.Value.Cmp(prev.RenterOutput.Value) > 0 {
		e.Violationf(inv+"value-to-host-only", call.method, "%s raised the renter payout %v -> %v", call.method, prev.RenterOutput.Value, rev.RenterOutput.Value)
	}
	if !rev.RenterOutput.Value.Add(rev.HostOutput.Value).Equals(prev.RenterOutput.Value.Add(prev.HostOutput.Value)) {
		e.Violationf(inv+"sum-constant", call.method, "%s changed the payout sum", call.method)
	}
	if rev.MissedHostValue.Cmp(prev.MissedHostValue) > 0 {
		e.Violationf(inv+"value-to-host-only", call.method+":missed", "%s raised the missed host value", call.method)
	}
	paid := prev.RenterOutput.Value.Sub(rev.RenterOutput.Value)
	if expectedCost != nil && !paid.Equals(*expectedCost) {
		e.Violationf(inv+"exact-price", call.method, "%s lowered the renter payout by %v, the amount due is %v", call.method, paid, *expectedCost)
	}
	if !paid.Equals(call.usage.RenterCost()) {
		e.Violationf(inv+"exact-price", call.method+":usage", "%s lowered the renter payout by %v but reports a usage of %v", call.method, paid, call.usage.RenterCost())
	}
	if expectedRisk != nil && !prev.MissedHostValue.Sub(rev.MissedHostValue).Equals(*expectedRisk) {
		e.Violationf(inv+"exact-price", call.method+":collateral", "%s risked %v of collateral, expected %v", call.method, prev.MissedHostValue.Sub(rev.MissedHostValue), *expectedRisk)
	}
	c.committed[call.id] = rev
}

// latestAcceptable: the host's latest revision validates as a revision of the on-chain contract.
//
// A revision persisted while it could still be confirmed stays the host's
// latest one after the proof window has opened; only a revision persisted now
// (fresh) has to be acceptable now.
func (c *c08Rig) latestAcceptable(fresh bool) {
	if !c.onChain {
		return
	}
	tip := c.tree.ByID[c.s.cm.Tip().ID]
	if !fresh && tip.Height+1 >= c.committed[c.contract.ID].ProofHeight {
		return
	}
	el, ok := tip.L.V2FC[c.contract.ID]
	if !ok {
		return
	}
	rev := c.committed[c.contract.ID]
	if rev.RevisionNumber <= el.V2FileContract.RevisionNumber {
		return
	}
	txn := types.V2Transaction{FileContractRevisions: []types.V2FileContractRevision{{Parent: el.Copy(), Revision: rev}}}
	ms := consensus.NewMidState(tip.L.State)
	if err := consensus.ValidateV2Transaction(ms, txn); err != nil {
		c.e.Violationf("C08.latest-revision-valid", "consensus-rejects", "the host's latest revision %d is not acceptable to consensus as a revision of the on-chain contract: %v", rev.RevisionNumber, err)
	}
	c.e.Probe("latest_revision_validated")
}

// resync fetches the latest revision like a renter after an error.
func (c *c08Rig) resync() {
	lr, err := rhp4.RPCLatestRevision(context.Background(), c.tr, c.contract.ID)
	if err != nil {
		c.e.Violationf("C08.honest-rpc", "latest-revision", "RPCLatestRevision failed: %v", err)
	}
	if host := c.committed[c.contract.ID]; !bytes.Equal(gen.Enc(lr.Contract), gen.Enc(host)) {
		c.e.Violationf("C08.latest-revision", "differs", "RPCLatestRevision returned revision %d, the last persisted one is %d (or content differs)", lr.Contract.RevisionNumber, host.RevisionNumber)
	}
	c.contract.Revision = lr.Contract
}

// mutation of one renter->host message
type renterMutation struct {
	name string
	step int // message index in the flow (0 = request, 2 = second response)
	fn   func(e *sim.Env, c *c08Rig, o proto4.Object) bool
}

func flipSig(s *types.Signature, e *sim.Env) { s[e.Intn(64)] ^= 1 << uint(e.Intn(8)) }

var renterMutations = []renterMutation{
	{"contract-id", 0, func(e *sim.Env, c *c08Rig, o proto4.Object) bool {
		var id types.FileContractID
		copy(id[:], e.Bytes(32))
		switch m := o.(type) {
		case *proto4.RPCFreeSectorsRequest:
			m.ContractID = id
		case *proto4.RPCAppendSectorsRequest:
			m.ContractID = id
		case *proto4.RPCFundAccountsRequest:
			m.ContractID = id
		case *proto4.RPCReplenishAccountsRequest:
			m.ContractID = id
		case *proto4.RPCSectorRootsRequest:
			m.ContractID = id
		default:
			return false
		}
		return true
	}},
	{"challenge-signature", 0, func(e *sim.Env, c *c08Rig, o proto4.Object) bool {
		switch m := o.(type) {
		case *proto4.RPCFreeSectorsRequest:
			flipSig(&m.ChallengeSignature, e)
		case *proto4.RPCAppendSectorsRequest:
			flipSig(&m.ChallengeSignature, e)
		case *proto4.RPCReplenishAccountsRequest:
			flipSig(&m.ChallengeSignature, e)
		default:
			return false
		}
		return true
	}},
	{"revision-signature", 0, func(e *sim.Env, c *c08Rig, o proto4.Object) bool {
		switch m := o.(type) {
		case *proto4.RPCFundAccountsRequest:
			flipSig(&m.RenterSignature, e)
		case *proto4.RPCSectorRootsRequest:
			flipSig(&m.RenterSignature, e)
		default:
			return false
		}
		return true
	}},
	{"revision-signature-2nd", 2, func(e *sim.Env, c *c08Rig, o proto4.Object) bool {
		switch m := o.(type) {
		case *proto4.RPCFreeSectorsSecondResponse:
			flipSig(&m.RenterSignature, e)
		case *proto4.RPCAppendSectorsSecondResponse:
			flipSig(&m.RenterSignature, e)
		case *proto4.RPCReplenishAccountsSecondResponse:
			flipSig(&m.RenterSignature, e)
		default:
			return false
		}
		return true
	}},
	{"replayed-signature-2nd", 2, func(e *sim.Env, c *c08Rig, o proto4.Object) bool {
		pick := func(kind string) proto4.Object {
			if l := c.recorded[kind]; len(l) > 0 {
				return l[e.Intn(len(l))]
			}
			return nil
		}
		switch m := o.(type) {
		case *proto4.RPCFreeSectorsSecondResponse:
			if p := pick("FreeSectorsSecondResponse"); p != nil {
				m.RenterSignature = p.(*proto4.RPCFreeSectorsSecondResponse).RenterSignature
				return true
			}
		case *proto4.RPCAppendSectorsSecondResponse:
			if p := pick("AppendSectorsSecondResponse"); p != nil {
				m.RenterSignature = p.(*proto4.RPCAppendSectorsSecondResponse).RenterSignature
				return true
			}
		}
		return false
	}},
	{"price-field", 0, func(e *sim.Env, c *c08Rig, o proto4.Object) bool {
		bump := func(p *proto4.HostPrices) {
			switch e.Intn(4) {
			case 0:
				p.StoragePrice = types.ZeroCurrency
			case 1:
				p.TipHeight += uint64(e.Range(1, 50))
			case 2:
				p.ValidUntil = p.ValidUntil.Add(time.Hour)
			case 3:
				p.FreeSectorPrice = types.ZeroCurrency
				p.EgressPrice = types.ZeroCurrency
				p.Collateral = p.Collateral.Add(types.NewCurrency64(1))
			}
		}
		switch m := o.(type) {
		case *proto4.RPCFreeSectorsRequest:
			bump(&m.Prices)
		case *proto4.RPCAppendSectorsRequest:
			bump(&m.Prices)
		case *proto4.RPCSectorRootsRequest:
			bump(&m.Prices)
		default:
			return false
		}
		return true
	}},
	{"foreign-price-table", 0, func(e *sim.Env, c *c08Rig, o proto4.Object) bool {
		resign := func(p *proto4.HostPrices) {
			p.StoragePrice = types.ZeroCurrency
			p.Signature = c.renterKey.SignHash(p.SigHash())
		}
		switch m := o.(type) {
		case *proto4.RPCFreeSectorsRequest:
			resign(&m.Prices)
		case *proto4.RPCAppendSectorsRequest:
			resign(&m.Prices)
		case *proto4.RPCSectorRootsRequest:
			resign(&m.Prices)
		default:
			return false
		}
		return true
	}},
	{"out-of-range", 0, func(e *sim.Env, c *c08Rig, o proto4.Object) bool {
		n := uint64(len(c.model))
		switch m := o.(type) {
		case *proto4.RPCFreeSectorsRequest:
			if e.Chance(1, 2) && len(m.Indices) > 0 {
				m.Indices = append(m.Indices, m.Indices[0]) // duplicate
			} else {
				m.Indices = append(m.Indices, n+uint64(e.Intn(3)))
			}
			m.ChallengeSignature = c.renterKey.SignHash(m.ChallengeSigHash(c.contract.Revision.RevisionNumber + 1))
		case *proto4.RPCSectorRootsRequest:
			if e.Chance(1, 2) {
				m.Offset = n + 1
			} else {
				m.Length = n - min(n, m.Offset) + 1
			}
		case *proto4.RPCFundAccountsRequest:
			// more than the renter has left
			m.Deposits = append(m.Deposits, proto4.AccountDeposit{Account: m.Deposits[0].Account, Amount: c.contract.Revision.RenterOutput.Value})
		default:
			return false
		}
		return true
	}},
	{"replayed-request", 0, func(e *sim.Env, c *c08Rig, o proto4.Object) bool {
		// the whole request of an earlier exchange of the same kind
		replace := func(kind string, dst proto4.Object) bool {
			l := c.recorded[kind]
			if len(l) == 0 {
				return false
			}
			src := l[e.Intn(len(l))]
			switch d := dst.(type) {
			case *proto4.RPCFreeSectorsRequest:
				*d = *src.(*proto4.RPCFreeSectorsRequest)
			case *proto4.RPCAppendSectorsRequest:
				*d = *src.(*proto4.RPCAppendSectorsRequest)
			case *proto4.RPCFundAccountsRequest:
				*d = *src.(*proto4.RPCFundAccountsRequest)
			case *proto4.RPCSectorRootsRequest:
				*d = *src.(*proto4.RPCSectorRootsRequest)
			case *proto4.RPCReplenishAccountsRequest:
				*d = *src.(*proto4.RPCReplenishAccountsRequest)
			}
			return true
		}
		switch o.(type) {
		case *proto4.RPCFreeSectorsRequest:
			return replace("FreeSectorsRequest", o)
		case *proto4.RPCAppendSectorsRequest:
			return replace("AppendSectorsRequest", o)
		case *proto4.RPCFundAccountsRequest:
			return replace("FundAccountsRequest", o)
		case *proto4.RPCSectorRootsRequest:
			return replace("SectorRootsRequest", o)
		case *proto4.RPCReplenishAccountsRequest:
			return replace("ReplenishAccountsRequest", o)
		}
		return false
	}},
}

// op is one renter RPC issued through the real client.
type c08Op struct {
	name string
	run  func(c *c08Rig) error
	// expected renter cost / risked collateral when the host commits (nil = only the generic rules)
	cost func(c *c08Rig, call contractorCall) (*types.Currency, *types.Currency)
}

func cur(c types.Currency) *types.Currency { return &c }

func (c *c08Rig) acct(i int) proto4.Account {
	return proto4.Account(c.accounts[i%len(c.accounts)].PublicKey())
}
func (c *c08Rig) pool(i int) proto4.Account {
	return proto4.Account(c.pools[i%len(c.pools)].PublicKey())
}

func (c *c08Rig) ops() []c08Op {
	e := c.e
	ctx := context.Background()
	return []c08Op{
		{"fund", func(c *c08Rig) error {
			var deps []proto4.AccountDeposit
			for i, n := 0, e.Range(1, 3); i < n; i++ {
				deps = append(deps, proto4.AccountDeposit{Account: c.acct(e.Intn(3)), Amount: types.Siacoins(uint32(e.Range(1, 20)))})
			}
			res, err := rhp4.RPCFundAccounts(ctx, c.tr, c.cs(), c.signer, c.contract, deps)
			if err == nil {
				c.contract.Revision = res.Revision
			}
			return err
		}, func(c *c08Rig, call contractorCall) (*types.Currency, *types.Currency) {
			var sum types.Currency
			for _, d := range call.deposits {
				sum = sum.Add(d.Amount)
			}
			return cur(sum), cur(types.ZeroCurrency)
		}},
		{"replenish-accounts", func(c *c08Rig) error {
			var accts []proto4.Account
			for i, n := 0, e.Range(1, 3); i < n; i++ {
				accts = append(accts, c.acct(i))
			}
			res, err := rhp4.RPCReplenishAccounts(ctx, c.tr, rhp4.RPCReplenishAccountsParams{Accounts: accts, Target: types.Siacoins(uint32(e.Range(1, 40))), Contract: c.contract}, c.cs(), c.signer)
			if err == nil {
				c.contract.Revision = res.Revision
			}
			return err
		}, func(c *c08Rig, call contractorCall) (*types.Currency, *types.Currency) {
			var sum types.Currency
			for _, d := range call.deposits {
				sum = sum.Add(d.Amount)
			}
			return cur(sum), cur(types.ZeroCurrency)
		}},
		{"replenish-pools", func(c *c08Rig) error {
			var ps []proto4.Account
			for i, n := 0, e.Range(1, 2); i < n; i++ {
				ps = append(ps, c.pool(i))
			}
			res, err := rhp4.RPCReplenishPools(ctx, c.tr, rhp4.RPCReplenishPoolsParams{Pools: ps, Target: types.Siacoins(uint32(e.Range(1, 40))), Contract: c.contract}, c.cs(), c.signer)
			if err == nil {
				c.contract.Revision = res.Revision
			}
			return err
		}, func(c *c08Rig, call contractorCall) (*types.Currency, *types.Currency) {
			var sum types.Currency
			for _, d := range call.deposits {
				sum = sum.Add(d.Amount)
			}
			return cur(sum), cur(types.ZeroCurrency)
		}},
		{"append", func(c *c08Rig) error {
			var roots []types.Hash256
			for i, n := 0, e.Range(1, 4); i < n; i++ {
				if e.Chance(1, 6) {
					var r types.Hash256
					copy(r[:], e.Bytes(32))
					roots = append(roots, r)
				} else {
					roots = append(roots, testSector(e.Intn(8)).root)
				}
			}
			res, err := rhp4.RPCAppendSectors(ctx, c.tr, c.signer, c.cs(), c.prices, c.contract, roots)
			if err == nil {
				c.contract.Revision = res.Revision
			}
			return err
		}, func(c *c08Rig, call contractorCall) (*types.Currency, *types.Currency) {
			prev := c.committed[call.id]
			appended := uint64(len(call.roots)) - prev.Filesize/proto4.SectorSize
			growth := appended - min(appended, (prev.Capacity-prev.Filesize)/proto4.SectorSize)
			req, _ := c.lastReq.(*proto4.RPCAppendSectorsRequest)
			if req == nil {
				return nil, nil
			}
			u := req.Prices.RPCAppendSectorsCost(growth, prev.ExpirationHeight-req.Prices.TipHeight)
			return cur(u.RenterCost()), cur(u.RiskedCollateral)
		}},
		{"free", func(c *c08Rig) error {
			if len(c.model) == 0 {
				return nil
			}
			var idx []uint64
			for i, n := 0, e.Range(1, min(3, len(c.model))); i < n; i++ {
				idx = append(idx, uint64(e.Intn(len(c.model))))
			}
			res, err := rhp4.RPCFreeSectors(ctx, c.tr, c.signer, c.cs(), c.prices, c.contract, idx)
			if err == nil {
				c.contract.Revision = res.Revision
			}
			return err
		}, func(c *c08Rig, call contractorCall) (*types.Currency, *types.Currency) {
			prev := c.committed[call.id]
			freed := int(prev.Filesize/proto4.SectorSize) - len(call.roots)
			req, _ := c.lastReq.(*proto4.RPCFreeSectorsRequest)
			if req == nil {
				return nil, nil
			}
			return cur(req.Prices.RPCFreeSectorsCost(freed).RenterCost()), cur(types.ZeroCurrency)
		}},
		{"sector-roots", func(c *c08Rig) error {
			if len(c.model) == 0 {
				return nil
			}
			off := uint64(e.Intn(len(c.model)))
			l := uint64(e.Range(1, len(c.model)-int(off)))
			res, err := rhp4.RPCSectorRoots(ctx, c.tr, c.cs(), c.prices, c.signer, c.contract, off, l)
			if err == nil {
				c.contract.Revision = res.Revision
			}
			return err
		}, func(c *c08Rig, call contractorCall) (*types.Currency, *types.Currency) {
			req, _ := c.lastReq.(*proto4.RPCSectorRootsRequest)
			if req == nil {
				return nil, nil
			}
			return cur(req.Prices.RPCSectorRootsCost(req.Length).RenterCost()), cur(types.ZeroCurrency)
		}},
		{"latest-revision", func(c *c08Rig) error {
			c.resync()
			return nil
		}, nil},
	}
}

// attempt runs one op, optionally with one renter-side corruption, and applies the oracles.
func (c *c08Rig) attempt(op c08Op, mut *renterMutation) (persisted int) {
	e := c.e
	e.Step()
	before := c.snapshot()
	applied := false
	c.lastReq = nil
	c.hook = func(_ int, id types.Specifier, step int, st simrhp.Step, o proto4.Object, raw []byte) simrhp.Action {
		if raw != nil || !st.FromRenter {
			return simrhp.Pass
		}
		if mut != nil && !applied && step == mut.step {
			if mut.fn(e, c, o) {
				applied = true
				e.Fault("renter-" + mut.name)
			}
		}
		if step == 0 {
			c.lastReq = o
		}
		if mut == nil || !applied {
			// remember honest messages for later replays
			c.recorded[st.Name] = append(c.recorded[st.Name], cloneObj(o))
		}
		return simrhp.Pass
	}
	var err error
	e.Guard("C08.panic", "RPC "+op.name, func() { err = op.run(c) })
	c.hook = nil
	waitQuiet()
	// what did the host persist?
	commits := 0
	for _, call := range c.contractor.calls[c.seenCall:] {
		if call.revision == nil {
			continue
		}
		if call.err != nil {
			// the reference contractor re-verifies and refused: the server
			// must not even have tried to persist a revision that breaks the rules
			saved := c.committed[call.id]
			c.checkRevision(call, nil, nil)
			c.committed[call.id] = saved
			continue
		}
		commits++
		var cost, risk *types.Currency
		if op.cost != nil {
			cost, risk = op.cost(c, call)
		}
		c.checkRevision(call, cost, risk)
		if call.method == "ReviseV2Contract" {
			c.model = append([]types.Hash256(nil), call.roots...)
		}
	}
	c.seenCall = len(c.contractor.calls)
	mname := "none"
	if mut != nil && applied {
		mname = mut.name
	}
	e.Logf("%s corrupt=%s -> renter err=%v, host persisted %d revision(s)", op.name, mname, err != nil, commits)
	e.Shape(op.name, mname, fmt.Sprint(err != nil), fmt.Sprint(commits))
	if applied {
		e.Nontrivial = true
		// a corrupted / replayed request must change nothing, except that a
		// replayed signature or request may coincide with what an honest renter
		// would have sent (then the generic rules above already held)
		if commits > 0 && mut.name != "replayed-request" {
			e.Violationf("C08.bad-request-changes-nothing", mut.name, "%s with corrupted %s made the host persist %d revision(s)", op.name, mut.name, commits)
		}
		if commits == 0 {
			if d := before.diff(c.snapshot()); d != "" {
				e.Violationf("C08.bad-request-changes-nothing", mut.name+":state", "%s with corrupted %s was not committed but the host's state changed: %s", op.name, mut.name, d)
			}
		}
	} else if err != nil && op.name != "latest-revision" {
		// honest requests may legitimately fail (insufficient funds); they must then change nothing
		if commits == 0 {
			if d := before.diff(c.snapshot()); d != "" {
				e.Violationf("C08.bad-request-changes-nothing", "failed:"+op.name, "%s failed (%v) but the host's state changed: %s", op.name, err, d)
			}
		}
		e.Probe("honest_rpc_failed")
	}
	if err != nil || applied {
		c.resync()
	}
	if host := c.committed[c.contract.ID]; !bytes.Equal(gen.Enc(c.contract.Revision), gen.Enc(host)) {
		e.Violationf("C08.same-revision", op.name, "after %s the renter holds revision %d, the host persisted %d (or content differs)", op.name, c.contract.Revision.RevisionNumber, host.RevisionNumber)
	}
	c.latestAcceptable(commits > 0)
	return commits
}

// concurrent issues 2-3 honest RPCs on the same contract at overlapping times:
// the renter's second message of each exchange is held back for a drawn time,
// so that another exchange reaches the host while the first one holds (or
// should hold) the contract. The generic rules are then applied to everything
// the host tried to persist, in the order it tried.
func (c *c08Rig) concurrent(ops []c08Op) {
	e := c.e
	e.Step()
	k := e.Range(2, 3)
	type job struct {
		op    c08Op
		start time.Duration
		err   error
	}
	var jobs []*job
	for i := 0; i < k; i++ {
		jobs = append(jobs, &job{op: ops[e.Pick(3, 2, 2, 4, 3, 2, 0)], start: time.Duration(i*e.Range(1, 60)) * time.Millisecond})
	}
	var delays []time.Duration
	for i := 0; i < 8; i++ {
		delays = append(delays, time.Duration(e.Range(0, 150))*time.Millisecond)
	}
	var mu sync.Mutex
	nd := 0
	c.hook = func(_ int, id types.Specifier, step int, st simrhp.Step, o proto4.Object, raw []byte) simrhp.Action {
		if raw == nil && st.FromRenter && step > 0 {
			mu.Lock()
			d := delays[nd%len(delays)]
			nd++
			mu.Unlock()
			time.Sleep(d)
		}
		return simrhp.Pass
	}
	var crashed []string
	// in the lock-yield flavour every Lock / Unlock of the host's contractor,
	// wallet and manager is a seeded scheduling point on top of the message delays
	e.WithSchedule(400, func() {
		var wg sync.WaitGroup
		for _, j := range jobs {
			j := j
			wg.Add(1)
			go func() {
				defer wg.Done()
				defer func() {
					if r := recover(); r != nil {
						mu.Lock()
						crashed = append(crashed, fmt.Sprintf("%v\n%s", r, debug.Stack()))
						mu.Unlock()
					}
				}()
				time.Sleep(j.start)
				j.err = j.op.run(c)
			}()
		}
		wg.Wait()
	})
	c.hook = nil
	waitQuiet()
	for _, st := range crashed {
		if sim.PanicInSUT(st) {
			e.Violationf("C08.panic", "concurrent-rpc", "an RPC client function panicked during concurrent use: %.1500s", st)
		}
		panic("C08 concurrent phase: " + st)
	}
	commits := 0
	var names []string
	for _, j := range jobs {
		names = append(names, j.op.name)
	}
	for _, call := range c.contractor.calls[c.seenCall:] {
		if call.revision == nil {
			continue
		}
		if call.err != nil {
			saved := c.committed[call.id]
			c.checkRevision(call, nil, nil)
			c.committed[call.id] = saved
			e.Violationf("C08.monotone-revisions", "refused-by-contractor", "during concurrent %v the server handed the contractor revision %d which it refused: %v", names, call.revision.RevisionNumber, call.err)
		}
		commits++
		c.checkRevision(call, nil, nil)
		if call.method == "ReviseV2Contract" {
			c.model = append([]types.Hash256(nil), call.roots...)
		}
	}
	c.seenCall = len(c.contractor.calls)
	e.Logf("concurrent %v -> host persisted %d revision(s)", names, commits)
	e.Shape("concurrent", fmt.Sprint(len(jobs)), fmt.Sprint(commits))
	e.Fault("concurrent-rpcs-on-one-contract")
	if commits >= 2 {
		e.Probe("concurrent_both_committed")
	}
	e.Nontrivial = true
	c.resync()
	c.checkHandlerPanics("concurrent RPCs")
	c.latestAcceptable(commits > 0)
}

// overflowFund sends a funding request whose deposits add up to 2 H modulo
// 2^128 (max + 2 H + 1 H) under the renter's genuine signature for a revision
// that pays 2 H. A host that signs it moves 2 H and credits 2^128 + 2 H.
func (c *c08Rig) overflowFund() {
	e := c.e
	e.Step()
	before := c.snapshot()
	c.hook = func(_ int, id types.Specifier, step int, st simrhp.Step, o proto4.Object, raw []byte) simrhp.Action {
		if req, ok := o.(*proto4.RPCFundAccountsRequest); ok && st.FromRenter && raw == nil {
			req.Deposits = []proto4.AccountDeposit{
				{Account: c.acct(0), Amount: types.MaxCurrency},
				{Account: c.acct(1), Amount: types.NewCurrency64(2)},
				{Account: c.acct(2), Amount: types.NewCurrency64(1)},
			}
			e.Fault("renter-deposits-overflow")
		}
		return simrhp.Pass
	}
	var err error
	e.Guard("C08.panic", "RPC fund (overflowing deposits)", func() {
		var res rhp4.RPCFundAccountResult
		res, err = rhp4.RPCFundAccounts(context.Background(), c.tr, c.cs(), c.signer, c.contract, []proto4.AccountDeposit{{Account: c.acct(1), Amount: types.NewCurrency64(2)}})
		if err == nil {
			c.contract.Revision = res.Revision
		}
	})
	c.hook = nil
	waitQuiet()
	// the unchanged handler sums the deposits with Currency.Add, which panics
	// on overflow; the server recovers the panic and drops the stream. That
	// changes nothing and is accepted here; any other recovered panic is not.
	for _, hp := range c.handlerPanics() {
		if !strings.Contains(hp, "overflow") {
			e.Violationf("C08.panic", "rpc-handler-panic:fund-overflow", "the RHP server recovered a panic in an RPC handler: %s", hp)
		}
		e.Probe("host_handler_panicked_on_overflowing_deposits")
	}
	commits := 0
	for _, call := range c.contractor.calls[c.seenCall:] {
		if call.revision != nil && call.err == nil {
			commits++
		}
	}
	c.seenCall = len(c.contractor.calls)
	e.Logf("fund with overflowing deposits -> renter err=%v, host persisted %d revision(s)", err != nil, commits)
	e.Shape("fund-overflow", fmt.Sprint(err != nil), fmt.Sprint(commits))
	e.Nontrivial = true
	if commits > 0 {
		e.Violationf("C08.bad-request-changes-nothing", "deposits-overflow", "a funding request whose deposits overflow (max + 2 H + 1 H) made the host persist %d revision(s) and credit the accounts", commits)
	}
	if d := before.diff(c.snapshot()); d != "" {
		e.Violationf("C08.bad-request-changes-nothing", "deposits-overflow:state", "a funding request whose deposits overflow was not committed but the host's state changed: %s", d)
	}
	c.resync()
}

// cloneObj copies a message via its encoding.
func cloneObj(o proto4.Object) proto4.Object {
	var buf bytes.Buffer
	proto4.WriteResponse(&buf, o)
	var n proto4.Object
	switch o.(type) {
	case *proto4.RPCFreeSectorsRequest:
		n = new(proto4.RPCFreeSectorsRequest)
	case *proto4.RPCAppendSectorsRequest:
		n = new(proto4.RPCAppendSectorsRequest)
	case *proto4.RPCFundAccountsRequest:
		n = new(proto4.RPCFundAccountsRequest)
	case *proto4.RPCSectorRootsRequest:
		n = new(proto4.RPCSectorRootsRequest)
	case *proto4.RPCReplenishAccountsRequest:
		n = new(proto4.RPCReplenishAccountsRequest)
	case *proto4.RPCFreeSectorsSecondResponse:
		n = new(proto4.RPCFreeSectorsSecondResponse)
	case *proto4.RPCAppendSectorsSecondResponse:
		n = new(proto4.RPCAppendSectorsSecondResponse)
	case *proto4.RPCReplenishAccountsSecondResponse:
		n = new(proto4.RPCReplenishAccountsSecondResponse)
	default:
		return o
	}
	if err := proto4.ReadResponse(&buf, n); err != nil {
		return o
	}
	return n
}

func runC08(e *sim.Env) {
	c := newC08Rig(e, "C08")
	ops := c.ops()
	if e.Chance(2, 3) {
		c.mine(1)
		c.onChain = true
		c.refreshPrices()
	}
	steps := e.Range(10, 40)
	for i := 0; i < steps; i++ {
		op := ops[e.Pick(3, 2, 2, 4, 3, 2, 1)]
		var mut *renterMutation
		if e.Chance(2, 5) {
			m := renterMutations[e.Intn(len(renterMutations))]
			mut = &m
		}
		c.attempt(op, mut)
		if e.Chance(1, 8) {
			c.concurrent(ops)
		}
		if e.Chance(1, 12) {
			c.overflowFund()
		}
		late := 0
		if c.short && c.onChain {
			late = 1
		}
		switch e.Pick(12, 1, 1, 1, late) {
		case 4: // the proof window opens: from now on no revision is acceptable to consensus
			if h := c.s.cm.Tip().Height; h < c.contract.Revision.ProofHeight {
				c.mine(int(c.contract.Revision.ProofHeight - h))
				c.refreshPrices()
				e.Fault("proof-window-opened")
			}
		case 1: // the price table expires
			time.Sleep(c.priceValidity + time.Second)
			e.Fault("clock-price-table-expired")
			if n := c.attempt(ops[3], nil); n > 0 { // must be rejected: stale prices
				e.Violationf("C08.bad-request-changes-nothing", "expired-price-table", "an append priced with an expired price table made the host persist %d revision(s)", n)
			}
			c.refreshPrices()
		case 2:
			c.mine(1)
			c.onChain = true
			c.refreshPrices()
		case 3:
			c.refreshPrices()
		}
	}
}

func init() {
	register(&Prop{
		ID: "C08", Run: runC08, Race: true, Flavour: "instrumented", Quick: 1200, Thorough: 8000, Level: "exploration",
		Rule:        "one run = a formed contract and 10-40 renter RPCs (fund accounts, replenish accounts, replenish pools, append, free, sector roots, latest revision) issued by the real client through a typed relay that, for 2 in 5 of them, corrupts one field of a renter->host message (contract id, challenge signature, revision signature in the request or in the second response, a price-table field, a price table signed by a foreign key, out-of-range / duplicate parameters, deposits beyond the allowance) or replaces it with a recorded message of an earlier exchange; a funding request whose deposits overflow 2^128 under a genuine signature for the wrapped total (1 step in 12); price tables expire by clock jumps; 1 run in 4 uses a contract of minimum duration and mines until its proof window opens (every revision persisted from then on is unacceptable to consensus); at 1 step in 8, 2-3 honest RPCs are issued on the same contract at overlapping simulated times, the renter's second message of each held back for a drawn delay, and everything the host tried to persist - in the order it tried, including attempts its contractor refused - goes through the same rules; every revision the host persists (recorded at the Contractor interface) is checked against the previously persisted one: strictly higher number, valid renter and host signatures over exactly it, immutable fields, value only moves to the host, constant sum, renter payout lowered by exactly the independently computed price (core's cost functions on the request that reached the host); corrupted requests persist nothing and leave contracts, accounts, pools untouched; renter and host end every exchange on the same revision; the latest revision validates with consensus as a revision of the on-chain element; distinct = abstract trace (op, corruption, outcome); non-trivial = at least one corrupted message",
		Real:        []string{"rhp4.Server", "rhp4 RPC* client functions", "wallet.SingleAddressWallet x2", "chain.Manager", "testutil.EphemeralContractor / EphemeralSectorStore behind recording wrappers"},
		Stub:        []string{"transport: simrhp in-memory streams with typed relay", "disk: simdisk.DB"},
		Assumptions: []string{"concurrent RPCs overlap at message boundaries (drawn delays in the relay); interleavings inside a handler between two messages are not enumerated", "renew/refresh are exercised by C16", "go.sia.tech/core's price functions define the amount due"},
	})
}
