package props

import (
	"bytes"
	"fmt"
	"runtime/debug"
	"sync"
	"time"

	"go.sia.tech/core/types"
	"go.sia.tech/coreutils/chain"

	"verif/gen"
	"verif/sim"
	"verif/simdisk"
)

// viewNoBodies compares everything but the stored block bodies.
func viewNoBodies(a, b view) (string, bool) {
	a.Blocks, b.Blocks = [32]byte{}, [32]byte{}
	return a.equal(b)
}

func runC19(e *sim.Env) {
	now := time.Now()
	net := gen.NewNet(e, now, gen.NetOpts{MaxHeight: 100})
	tree := gen.NewTree(net)
	e.Shape("net", net.Regime)
	bo := gen.BlockOpts{Mix: gen.FullMix, MaxTx: e.Range(0, 3), OrderSafe: true, Now: now, Strict: genStrict}
	tree.Grow(e, gen.GrowOpts{
		Blocks:    e.Range(8, 36),
		Corrupt:   e.Range(0, 1),
		Kinds:     gen.KindsNoFuture(),
		MinerPool: []types.Address{types.VoidAddress, net.Actors[0].Addr},
		LongFork:  true,
		Block:     bo,
	})
	plan := makePlan(e, tree)

	disk := simdisk.New()
	s := newChainSUT(e, net, disk)
	twin := newChainSUT(e, net, simdisk.New())
	// gone: bodies the statement says are removed; readded: handed to the node
	// again afterwards (the body may legitimately be back)
	gone := map[types.BlockID]bool{}
	readded := map[types.BlockID]bool{}
	prunes := 0
	diverged := false

	checkQueries := func(label string) {
		tip := s.cm.Tip()
		if tt := twin.cm.Tip(); tt != tip {
			e.Violationf("C19.same-as-unpruned", "tip", "%s: pruned node tip %v, unpruned twin %v", label, tip, tt)
		}
		gv, wv := takeView(s, true), takeView(twin, true)
		if what, ok := viewNoBodies(wv, gv); !ok {
			e.Violationf("C19.same-as-unpruned", "view:"+what, "%s: the pruned node serves a different %s than the unpruned twin: %s", label, what, diffDetail(gv, wv))
		}
		tipNode := tree.ByID[tip.ID]
		// bodies: exactly the pruned ones are missing; headers and states stay
		lowestBody := tipNode.Height
		path := tipNode.PathFromGenesis()
		for i := len(path) - 2; i >= 0; i-- {
			if _, have := s.cm.Block(path[i].ID); !have {
				break
			}
			lowestBody = path[i].Height
		}
		for i := len(path) - 1; i >= 0; i-- {
			n := path[i]
			_, have := s.cm.Block(n.ID)
			switch {
			case gone[n.ID] && have && !readded[n.ID]:
				e.Violationf("C19.bodies-removed", "body-still-present", "%s: block %s lies below a pruned height on the best chain but its body is still served", label, n.Describe())
			case !gone[n.ID] && !have:
				e.Violationf("C19.only-old-bodies", "body-missing", "%s: body of best-chain block %s is missing although it was never pruned", label, n.Describe())
			}
			var hdrOK, stOK bool
			var hdr types.BlockHeader
			e.Guard("C19.panic", "Header/State", func() {
				hdr, hdrOK = s.store.Header(n.ID)
				_, stOK = s.cm.State(n.ID)
			})
			if !hdrOK || hdr.ID() != n.ID {
				e.Violationf("C19.headers-remain", "header-missing", "%s: header of %s is gone or wrong after pruning", label, n.Describe())
			}
			if !stOK {
				e.Violationf("C19.headers-remain", "state-missing", "%s: state of %s is gone after pruning", label, n.Describe())
			}
		}
		// side-chain blocks are never touched
		for _, n := range tree.Nodes {
			if n.IsAncestorOf(tipNode) {
				continue
			}
			_, tw := twin.cm.Block(n.ID)
			_, have := s.cm.Block(n.ID)
			if tw && !have && !gone[n.ID] {
				e.Violationf("C19.only-old-bodies", "side-chain-body-missing", "%s: body of side-chain block %s is missing", label, n.Describe())
			}
		}
		// minimum reorg index
		var mri types.ChainIndex
		e.Guard("C19.panic", "MinReorgIndex", func() { mri = s.cm.MinReorgIndex() })
		if mri.Height != lowestBody || mri.ID != path[lowestBody].ID {
			e.Violationf("C19.min-reorg-index", "min-reorg-index", "%s: MinReorgIndex %v, but the lowest best-chain height with contiguous bodies up to the tip is %d", label, mri, lowestBody)
		}
		// history / headers
		var h1, h2 [32]types.BlockID
		e.Guard("C19.panic", "History", func() { h1, _ = s.cm.History(); h2, _ = twin.cm.History() })
		if h1 != h2 {
			e.Violationf("C19.same-as-unpruned", "history", "%s: History() differs from the unpruned twin", label)
		}
		from := path[e.Intn(len(path))]
		max := uint64(e.Range(1, 40))
		var hs1, hs2 []types.BlockHeader
		var r1, r2 uint64
		var e1, e2 error
		e.Guard("C19.panic", "Headers", func() {
			hs1, r1, e1 = s.cm.Headers(from.Index(), max)
			hs2, r2, e2 = twin.cm.Headers(from.Index(), max)
		})
		if (e1 != nil) != (e2 != nil) || r1 != r2 || len(hs1) != len(hs2) {
			e.Violationf("C19.same-as-unpruned", "headers", "%s: Headers(%v,%d) = (%d headers, %d remaining, %v) vs twin (%d, %d, %v)", label, from.Index(), max, len(hs1), r1, e1, len(hs2), r2, e2)
		}
		for i := range hs1 {
			if hs1[i] != hs2[i] {
				e.Violationf("C19.same-as-unpruned", "headers", "%s: Headers(%v,%d)[%d] differs from the twin", label, from.Index(), max, i)
			}
		}
		// the fee estimate reads recent block bodies: without them a number, never a panic
		e.Guard("C19.panic", "RecommendedFee", func() { s.cm.RecommendedFee() })
		// requests that may need pruned bodies: an error or the twin's answer, never a panic
		sub := path[e.Intn(len(path))]
		var ru1, ru2 []chain.RevertUpdate
		var au1, au2 []chain.ApplyUpdate
		maxU := e.Range(1, 10)
		e.Guard("C19.panic", "UpdatesSince", func() {
			ru1, au1, e1 = s.cm.UpdatesSince(sub.Index(), maxU)
			ru2, au2, e2 = twin.cm.UpdatesSince(sub.Index(), maxU)
		})
		needs := false
		for i := 1; i <= maxU && int(sub.Height)+i < len(path); i++ {
			if _, have := s.cm.Block(path[int(sub.Height)+i].ID); !have {
				needs = true
			}
		}
		switch {
		case e1 != nil && !needs:
			e.Violationf("C19.same-as-unpruned", "updates-error", "%s: UpdatesSince(%v,%d) failed (%v) although no pruned body is needed", label, sub.Index(), maxU, e1)
		case e1 == nil && needs:
			e.Violationf("C19.pruned-request-errors", "updates-no-error", "%s: UpdatesSince(%v,%d) succeeded although it needs a pruned body", label, sub.Index(), maxU)
		case e1 == nil:
			if len(ru1) != len(ru2) || len(au1) != len(au2) {
				e.Violationf("C19.same-as-unpruned", "updates", "%s: UpdatesSince(%v,%d) returned %d/%d updates, twin %d/%d", label, sub.Index(), maxU, len(ru1), len(au1), len(ru2), len(au2))
			}
			for i := range au1 {
				if au1[i].State.Index != au2[i].State.Index {
					e.Violationf("C19.same-as-unpruned", "updates", "%s: UpdatesSince apply %d differs from twin", label, i)
				}
			}
		default:
			e.Probe("updates_since_needs_pruned_body")
		}
		hist := []types.BlockID{path[e.Intn(len(path))].ID}
		var b1, b2 []types.Block
		e.Guard("C19.panic", "BlocksForHistory", func() {
			b1, r1, e1 = s.cm.BlocksForHistory(hist, uint64(maxU))
			b2, r2, e2 = twin.cm.BlocksForHistory(hist, uint64(maxU))
		})
		if e1 == nil {
			if len(b1) != len(b2) || r1 != r2 {
				e.Violationf("C19.same-as-unpruned", "blocks-for-history", "%s: BlocksForHistory returned %d blocks (%d remaining), twin %d (%d)", label, len(b1), r1, len(b2), r2)
			}
			for i := range b1 {
				if b1[i].ID() != b2[i].ID() {
					e.Violationf("C19.same-as-unpruned", "blocks-for-history", "%s: BlocksForHistory block %d differs from the twin (a pruned body was served as an empty block?)", label, i)
				}
			}
		} else {
			e.Probe("blocks_for_history_needs_pruned_body")
		}
	}

	tip := tree.Genesis
	for _, batch := range plan {
		if len(batch) == 0 {
			continue
		}
		e.Step()
		// sometimes prune first
		if e.Chance(1, 3) {
			th := s.cm.Tip().Height
			var h uint64
			kind := e.Pick(3, 2, 2, 2, 2)
			switch kind {
			case 0:
				h = uint64(e.Range(1, int(th)+1)) // mid chain
			case 1:
				h = th
			case 2:
				h = th + 1
			case 3:
				h = th + uint64(e.Range(2, 20)) // beyond the tip
			case 4:
				h = 0
			}
			e.Guard("C19.panic", "PruneBlocks", func() { s.cm.PruneBlocks(h) })
			prunes++
			e.Fault(fmt.Sprintf("prune-%d", kind))
			e.Logf("PruneBlocks(%d) at tip height %d", h, th)
			for _, n := range tip.PathFromGenesis() {
				if n.Height < h {
					if gone[n.ID] = true; readded[n.ID] {
						delete(readded, n.ID)
					}
				}
			}
			e.Nontrivial = true
			checkQueries(fmt.Sprintf("after PruneBlocks(%d)", h))
		}
		// F-crash: stop, reopen from the committed image
		if e.Chance(1, 8) {
			e.Fault("crash-reopen")
			img := disk.Committed()
			disk = simdisk.FromImage(img)
			rs, err := reopenChainSUT(net, disk)
			if err != nil {
				e.Violationf("C19.reopen", "reopen-error", "reopening after a prune failed: %v", err)
			}
			s = rs
			// un-committed prunes are lost with the crash: bodies may be back
			for id := range gone {
				if _, have := s.cm.Block(id); have {
					delete(gone, id)
				}
			}
			e.Logf("crash + reopen, tip %v", s.cm.Tip())
			// the crash lost everything stored since the last commit: hand the
			// node every block the twin knows and it does not (parents first)
			for _, n := range tree.Nodes {
				if _, tw := twin.cm.State(n.ID); !tw {
					continue
				}
				if _, have := s.cm.State(n.ID); have {
					continue
				}
				e.Guard("C19.panic", "AddBlocks(after reopen)", func() { s.cm.AddBlocks([]types.Block{n.Block}) })
			}
			if s.cm.Tip() != twin.cm.Tip() {
				tn := tree.ByID[twin.cm.Tip().ID]
				e.Guard("C19.panic", "AddBlocks(after reopen)", func() { s.cm.AddBlocks(blocksOf(tn.PathFromGenesis()[1:])) })
				for _, n := range tn.PathFromGenesis() {
					if gone[n.ID] {
						readded[n.ID] = true
					}
				}
				if s.cm.Tip() != twin.cm.Tip() {
					// hysteresis: the reopened node sits on a tip within the margin
					e.Probe("reopen_tip_differs")
					return
				}
			}
			tip = tree.ByID[s.cm.Tip().ID]
		}
		// classify the batch relative to what is pruned
		var err, terr error
		before := takeView(s, false)
		mri := s.cm.MinReorgIndex()
		for _, n := range batch {
			if gone[n.ID] {
				readded[n.ID] = true
			}
		}
		e.Guard("C19.panic", "AddBlocks", func() { err = s.cm.AddBlocks(blocksOf(batch)) })
		terr = twin.cm.AddBlocks(blocksOf(batch))
		newTip := auditBestChain(e, "C19", s, tree)
		ttip := tree.ByID[twin.cm.Tip().ID]
		e.Logf("AddBlocks(%d, last %s) -> err=%v twin err=%v tip %s twin tip %s (min reorg %d)", len(batch), batch[len(batch)-1].Describe(), err != nil, terr != nil, newTip.Describe(), ttip.Describe(), mri.Height)
		if newTip != ttip || (err != nil) != (terr != nil) {
			// legitimate only when the twin reorged across the pruned boundary
			fork := gen.CommonAncestor(tip, ttip)
			if fork.Height >= mri.Height {
				e.Violationf("C19.reorg-above-boundary", "outcome-differs", "a fork with fork point %d (at or above the minimum reorg index %d) gave err=%v tip %s on the pruned node but err=%v tip %s on the unpruned twin", fork.Height, mri.Height, err, newTip.Describe(), terr, ttip.Describe())
			}
			if err == nil {
				e.Violationf("C19.pruned-request-errors", "no-error", "a reorg below the pruned boundary (fork point %d, minimum reorg index %d) neither succeeded like on the twin nor returned an error", fork.Height, mri.Height)
			}
			after := takeView(s, false)
			if what, ok := before.equal(after); !ok {
				e.Violationf("C19.failed-reorg-rolled-back", "changed:"+what, "a reorg below the pruned boundary failed (%v) but changed the node's %s", err, what)
			}
			e.Probe("reorg_below_boundary_rejected")
			e.Shape("below-boundary")
			diverged = true
			break
		}
		if newTip != tip {
			fork := gen.CommonAncestor(tip, newTip)
			if d := int(tip.Height - fork.Height); d > 0 {
				e.Shape("reorg", bucket(d), fmt.Sprint(prunes > 0))
				if prunes > 0 {
					e.Probe("reorg_after_prune")
				}
			}
		}
		tip = newTip
		checkQueries("after AddBlocks")
	}
	_ = bytes.Equal
	// a prune and a reorg at the same time (as a node that prunes on one
	// goroutine while its syncer adds blocks on another): the outcome is that
	// of one of the two orders, nothing in between
	if !diverged && tip.Height >= 4 && e.Chance(1, 2) {
		e.Step()
		back := uint64(e.Range(2, int(min(tip.Height-1, 6))))
		base := tip.Ancestor(tip.Height - back)
		if !base.Valid() {
			return
		}
		x := base
		var fork []*gen.Node
		for i := uint64(0); i < back+2; i++ {
			x = tree.Extend(e, x, gen.BlockOpts{Now: now, Miner: types.VoidAddress})
			fork = append(fork, x)
		}
		// at least one of the blocks the reorg reverts lies below the prune height
		h := base.Height + 2 + uint64(e.Intn(int(back)-1))
		oldPath, newPath := tip.PathFromGenesis(), x.PathFromGenesis()
		var aerr error
		var crash string
		// every write to the disk is a scheduling point, and every commit of the
		// phase is kept: what a stop at that moment would leave behind
		var images []*simdisk.Image
		// (a commit waits a drawn number of scheduling points first, so that it
		// can land anywhere among the other goroutine's writes)
		flushWait := e.Range(0, 400)
		disk.Yield = func(site string) {
			if site == "disk.flush" {
				for i := 0; i < flushWait; i++ {
					sim.YieldPoint("disk.flush-wait")
				}
			}
			sim.YieldPoint(site)
		}
		disk.OnCommit = func(im *simdisk.Image) { images = append(images, im) }
		e.WithSchedule(2000, func() {
			var wg sync.WaitGroup
			guard := func(fn func()) {
				wg.Add(1)
				go func() {
					defer wg.Done()
					defer func() {
						if r := recover(); r != nil && crash == "" {
							crash = fmt.Sprintf("%v\n%s", r, debug.Stack())
						}
					}()
					fn()
				}()
			}
			guard(func() { s.cm.PruneBlocks(h) })
			guard(func() {
				for i, d := 0, e.Range(0, 6); i < d; i++ {
					sim.YieldPoint("reorg-start")
				}
				aerr = s.cm.AddBlocks(blocksOf(fork))
			})
			wg.Wait()
		})
		disk.Yield, disk.OnCommit = nil, nil
		if crash != "" {
			if sim.PanicInSUT(crash) {
				e.Violationf("C19.panic", "concurrent-prune", "PruneBlocks concurrent with AddBlocks panicked: %.1500s", crash)
			}
			panic("C19 concurrent phase: " + crash)
		}
		// every commit made meanwhile reopens to a valid chain whose served
		// elements are the reference ledger's at that tip
		for k, im := range images {
			rs, err := reopenChainSUT(net, simdisk.FromImage(im))
			if err != nil {
				e.Violationf("C19.reopen", "reopen-error:concurrent", "commit %d made while PruneBlocks(%d) ran next to a reorg does not reopen: %v", k, h, err)
			}
			var rt *gen.Node
			e.Guard("C19.panic", "audit(reopened commit)", func() { rt = auditBestChain(e, "C19", rs, tree) })
			e.Guard("C19.panic", "ledger(reopened commit)", func() { compareWithLedger(e, "C19", rs, rt) })
			e.Probe("concurrent_phase_commit_reopened")
		}
		prunes++
		e.Fault("prune-concurrent-with-reorg")
		e.Nontrivial = true
		got := tree.ByID[s.cm.Tip().ID]
		e.Logf("PruneBlocks(%d) concurrent with a reorg -%d +%d from %s -> err=%v tip %s", h, back, len(fork), base.Describe(), aerr != nil, got.Describe())
		switch got {
		case x:
			// the reorg came first: the prune worked on the new best chain
			if terr := twin.cm.AddBlocks(blocksOf(fork)); terr != nil {
				e.Violationf("C19.same-as-unpruned", "twin", "the unpruned twin rejected the fork: %v", terr)
			}
			for _, n := range newPath {
				if n.Height < h {
					gone[n.ID] = true
					delete(readded, n.ID)
				}
			}
			e.Shape("concurrent", "reorg-first")
		case tip:
			// the prune came first: the reorg would have had to revert a pruned block
			if aerr == nil {
				e.Violationf("C19.pruned-request-errors", "no-error:concurrent", "a reorg that has to revert pruned blocks neither succeeded nor returned an error")
			}
			for _, n := range oldPath {
				if n.Height < h {
					gone[n.ID] = true
					delete(readded, n.ID)
				}
			}
			e.Shape("concurrent", "prune-first")
		default:
			e.Violationf("C19.failed-reorg-rolled-back", "concurrent:tip", "after PruneBlocks(%d) concurrent with a reorg from %s the tip is %s: neither the old tip %s nor the fork's %s", h, base.Describe(), got.Describe(), tip.Describe(), x.Describe())
		}
		tip = got
		checkQueries(fmt.Sprintf("after PruneBlocks(%d) concurrent with a reorg", h))
	}
}

func init() {
	register(&Prop{
		ID: "C19", Run: runC19, Flavour: "instrumented", Quick: 900, Thorough: 20000, Level: "exploration",
		Rule:        "one run = C01-style history on a node that is pruned at drawn moments (height 0, mid-chain, tip, tip+1, beyond the tip; repeated) and crashed/reopened now and then, next to an unpruned twin receiving the same submissions; after every prune and every submission: exactly the best-chain bodies below the pruned heights are gone, headers/states/best index/History/Headers/tip/element view equal the twin's, MinReorgIndex is the lowest height with contiguous bodies, UpdatesSince/BlocksForHistory either answer like the twin or fail with an error when a pruned body is needed, forks with fork point at or above MinReorgIndex give the twin's outcome, forks below fail with an error and leave the node unchanged; half of the runs end with a PruneBlocks call concurrent with a reorg that reverts blocks below the prune height (seeded lock-yield scheduler, every disk write a scheduling point, commits delayed by a drawn number of points): the result is that of one of the two orders, and every commit made meanwhile reopens to a valid chain with the reference ledger's elements; distinct = abstract trace (prune kinds, reorg depth buckets); non-trivial = at least one prune",
		Real:        []string{"chain.Manager", "chain.DBStore (pruned node and unpruned twin)"},
		Stub:        []string{"disk: simdisk.DB"},
		Assumptions: []string{"blocks handed to the node again after pruning may or may not be served again (documented as unsupported); everything else about them is still checked"},
	})
}
