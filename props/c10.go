package props

import (
	"bytes"
	"context"
	"fmt"

	"go.sia.tech/core/consensus"
	proto4 "go.sia.tech/core/rhp/v4"
	"go.sia.tech/core/types"
	rhp4 "go.sia.tech/coreutils/rhp/v4"

	"verif/sim"
	"verif/simrhp"
)

// hostMut is one corruption of one host->renter message.
type hostMut struct {
	name string
	fn   func(e *sim.Env, c *c10Rig, o proto4.Object, raw []byte) bool
}

func flipHash(h *types.Hash256, e *sim.Env) { h[e.Intn(32)] ^= 1 << uint(e.Intn(8)) }

func mutHashes(name string, get func(proto4.Object) *[]types.Hash256) []hostMut {
	return []hostMut{
		{name + "-flip", func(e *sim.Env, c *c10Rig, o proto4.Object, raw []byte) bool {
			hs := get(o)
			if hs == nil || len(*hs) == 0 {
				return false
			}
			flipHash(&(*hs)[e.Intn(len(*hs))], e)
			return true
		}},
		{name + "-truncate", func(e *sim.Env, c *c10Rig, o proto4.Object, raw []byte) bool {
			hs := get(o)
			if hs == nil || len(*hs) == 0 {
				return false
			}
			*hs = (*hs)[:len(*hs)-1]
			return true
		}},
		{name + "-extend", func(e *sim.Env, c *c10Rig, o proto4.Object, raw []byte) bool {
			hs := get(o)
			if hs == nil {
				return false
			}
			var h types.Hash256
			copy(h[:], e.Bytes(32))
			*hs = append(*hs, h)
			return true
		}},
		{name + "-from-other-exchange", func(e *sim.Env, c *c10Rig, o proto4.Object, raw []byte) bool {
			hs := get(o)
			if hs == nil || len(c.otherHashes) == 0 {
				return false
			}
			*hs = append([]types.Hash256(nil), c.otherHashes...)
			return true
		}},
	}
}

func mutSig(name string, get func(proto4.Object) *types.Signature) []hostMut {
	return []hostMut{
		{name + "-flip", func(e *sim.Env, c *c10Rig, o proto4.Object, raw []byte) bool {
			s := get(o)
			if s == nil {
				return false
			}
			flipSig(s, e)
			return true
		}},
		{name + "-from-other-exchange", func(e *sim.Env, c *c10Rig, o proto4.Object, raw []byte) bool {
			s := get(o)
			if s == nil || c.otherSig == (types.Signature{}) {
				return false
			}
			*s = c.otherSig
			return true
		}},
		{name + "-resigned-garbage", func(e *sim.Env, c *c10Rig, o proto4.Object, raw []byte) bool {
			s := get(o)
			if s == nil {
				return false
			}
			var h types.Hash256
			copy(h[:], e.Bytes(32))
			*s = c.hostKey.SignHash(h) // a genuine host signature, over something else
			return true
		}},
	}
}

// hostMutations lists every corruption applicable to a message of the given type.
func hostMutations(o proto4.Object, raw bool) []hostMut {
	if raw {
		return []hostMut{
			{"data-flip", func(e *sim.Env, c *c10Rig, o proto4.Object, raw []byte) bool {
				if len(raw) == 0 {
					return false
				}
				raw[e.Intn(len(raw))] ^= 1 << uint(e.Intn(8))
				return true
			}},
			{"data-other-sector", func(e *sim.Env, c *c10Rig, o proto4.Object, raw []byte) bool {
				if len(raw) == 0 {
					return false
				}
				copy(raw, testSector(7).data[1000:])
				return true
			}},
		}
	}
	var ms []hostMut
	switch o.(type) {
	case *proto4.RPCReadSectorResponse:
		ms = append(ms, mutHashes("proof", func(o proto4.Object) *[]types.Hash256 { return &o.(*proto4.RPCReadSectorResponse).Proof })...)
		ms = append(ms, hostMut{"length-shorter", func(e *sim.Env, c *c10Rig, o proto4.Object, raw []byte) bool {
			m := o.(*proto4.RPCReadSectorResponse)
			if m.DataLength < 128 {
				return false
			}
			m.DataLength -= 64
			return true
		}}, hostMut{"length-longer", func(e *sim.Env, c *c10Rig, o proto4.Object, raw []byte) bool {
			o.(*proto4.RPCReadSectorResponse).DataLength += 64
			return true
		}}, hostMut{"shorter-range-with-its-own-genuine-proof", func(e *sim.Env, c *c10Rig, o proto4.Object, raw []byte) bool {
			// a coherent lie: the answer to a shorter read of the same sector
			m := o.(*proto4.RPCReadSectorResponse)
			if c.readLen < 128 {
				return false
			}
			l := uint64(e.Range(1, int(c.readLen/64)-1)) * 64
			sector := testSector(c.readSector).data
			start, end := c.readOff/proto4.LeafSize, (c.readOff+l+proto4.LeafSize-1)/proto4.LeafSize
			segStart, segEnd := proto4.SectorSubtreeRange(start, end)
			m.Proof = proto4.BuildSectorProof(sector[segStart*proto4.LeafSize:segEnd*proto4.LeafSize], start, end, proto4.CachedSectorSubtrees(sector))
			m.DataLength = l
			return true
		}})
	case *proto4.RPCWriteSectorResponse:
		ms = append(ms, hostMut{"root-flip", func(e *sim.Env, c *c10Rig, o proto4.Object, raw []byte) bool {
			flipHash(&o.(*proto4.RPCWriteSectorResponse).Root, e)
			return true
		}}, hostMut{"root-of-other-sector", func(e *sim.Env, c *c10Rig, o proto4.Object, raw []byte) bool {
			o.(*proto4.RPCWriteSectorResponse).Root = testSector(6).root
			return true
		}})
	case *proto4.RPCVerifySectorResponse:
		ms = append(ms, mutHashes("proof", func(o proto4.Object) *[]types.Hash256 { return &o.(*proto4.RPCVerifySectorResponse).Proof })...)
		ms = append(ms, hostMut{"leaf-flip", func(e *sim.Env, c *c10Rig, o proto4.Object, raw []byte) bool {
			o.(*proto4.RPCVerifySectorResponse).Leaf[e.Intn(64)] ^= 1
			return true
		}})
	case *proto4.RPCAppendSectorsResponse:
		ms = append(ms, mutHashes("subtree-roots", func(o proto4.Object) *[]types.Hash256 { return &o.(*proto4.RPCAppendSectorsResponse).SubtreeRoots })...)
		ms = append(ms, hostMut{"new-root-flip", func(e *sim.Env, c *c10Rig, o proto4.Object, raw []byte) bool {
			flipHash(&o.(*proto4.RPCAppendSectorsResponse).NewMerkleRoot, e)
			return true
		}}, hostMut{"accepted-flip", func(e *sim.Env, c *c10Rig, o proto4.Object, raw []byte) bool {
			m := o.(*proto4.RPCAppendSectorsResponse)
			if len(m.Accepted) == 0 {
				return false
			}
			i := e.Intn(len(m.Accepted))
			m.Accepted[i] = !m.Accepted[i]
			return true
		}}, hostMut{"accepted-none-with-arbitrary-root", func(e *sim.Env, c *c10Rig, o proto4.Object, raw []byte) bool {
			// a coherent lie: "I accepted nothing" - and a new root all the same
			m := o.(*proto4.RPCAppendSectorsResponse)
			for i := range m.Accepted {
				m.Accepted[i] = false
			}
			switch e.Intn(3) {
			case 0:
				copy(m.NewMerkleRoot[:], e.Bytes(32))
			case 1:
				m.NewMerkleRoot = types.Hash256{}
			case 2:
				// the root of the contract with its last sector dropped
				if rs := c.prevRoots; len(rs) > 0 {
					m.NewMerkleRoot = proto4.MetaRoot(rs[:len(rs)-1])
				} else {
					m.NewMerkleRoot = testSector(5).root
				}
			}
			return true
		}}, hostMut{"accepted-count", func(e *sim.Env, c *c10Rig, o proto4.Object, raw []byte) bool {
			m := o.(*proto4.RPCAppendSectorsResponse)
			if e.Chance(1, 2) && len(m.Accepted) > 0 {
				m.Accepted = m.Accepted[:len(m.Accepted)-1]
			} else {
				m.Accepted = append(m.Accepted, true)
			}
			return true
		}})
	case *proto4.RPCAppendSectorsThirdResponse:
		ms = append(ms, mutSig("host-signature", func(o proto4.Object) *types.Signature {
			return &o.(*proto4.RPCAppendSectorsThirdResponse).HostSignature
		})...)
	case *proto4.RPCFreeSectorsResponse:
		ms = append(ms, mutHashes("old-subtree-hashes", func(o proto4.Object) *[]types.Hash256 { return &o.(*proto4.RPCFreeSectorsResponse).OldSubtreeHashes })...)
		ms = append(ms, mutHashes("old-leaf-hashes", func(o proto4.Object) *[]types.Hash256 { return &o.(*proto4.RPCFreeSectorsResponse).OldLeafHashes })...)
		ms = append(ms, hostMut{"new-root-flip", func(e *sim.Env, c *c10Rig, o proto4.Object, raw []byte) bool {
			flipHash(&o.(*proto4.RPCFreeSectorsResponse).NewMerkleRoot, e)
			return true
		}}, hostMut{"new-root-unchanged", func(e *sim.Env, c *c10Rig, o proto4.Object, raw []byte) bool {
			o.(*proto4.RPCFreeSectorsResponse).NewMerkleRoot = c.contract.Revision.FileMerkleRoot
			return true
		}})
	case *proto4.RPCFreeSectorsThirdResponse:
		ms = append(ms, mutSig("host-signature", func(o proto4.Object) *types.Signature { return &o.(*proto4.RPCFreeSectorsThirdResponse).HostSignature })...)
	case *proto4.RPCSectorRootsResponse:
		ms = append(ms, mutHashes("proof", func(o proto4.Object) *[]types.Hash256 { return &o.(*proto4.RPCSectorRootsResponse).Proof })...)
		ms = append(ms, mutHashes("roots", func(o proto4.Object) *[]types.Hash256 { return &o.(*proto4.RPCSectorRootsResponse).Roots })...)
		ms = append(ms, hostMut{"roots-swapped", func(e *sim.Env, c *c10Rig, o proto4.Object, raw []byte) bool {
			m := o.(*proto4.RPCSectorRootsResponse)
			if len(m.Roots) < 2 || m.Roots[0] == m.Roots[1] {
				return false
			}
			m.Roots[0], m.Roots[1] = m.Roots[1], m.Roots[0]
			return true
		}})
		ms = append(ms, mutSig("host-signature", func(o proto4.Object) *types.Signature { return &o.(*proto4.RPCSectorRootsResponse).HostSignature })...)
	case *proto4.RPCFundAccountsResponse:
		ms = append(ms, mutSig("host-signature", func(o proto4.Object) *types.Signature { return &o.(*proto4.RPCFundAccountsResponse).HostSignature })...)
	case *proto4.RPCReplenishAccountsResponse:
		ms = append(ms, hostMut{"deposit-above-target", func(e *sim.Env, c *c10Rig, o proto4.Object, raw []byte) bool {
			m := o.(*proto4.RPCReplenishAccountsResponse)
			if len(m.Deposits) == 0 {
				return false
			}
			m.Deposits[0].Amount = c.replTarget.Add(types.NewCurrency64(1))
			return true
		}}, hostMut{"deposits-inflated", func(e *sim.Env, c *c10Rig, o proto4.Object, raw []byte) bool {
			m := o.(*proto4.RPCReplenishAccountsResponse)
			for i := 0; i < 3; i++ {
				m.Deposits = append(m.Deposits, proto4.AccountDeposit{Account: c.acct(0), Amount: c.replTarget})
			}
			return true
		}})
	case *proto4.RPCReplenishAccountsThirdResponse:
		ms = append(ms, mutSig("host-signature", func(o proto4.Object) *types.Signature {
			return &o.(*proto4.RPCReplenishAccountsThirdResponse).HostSignature
		})...)
	case *proto4.RPCLatestRevisionResponse:
		ms = append(ms, mutSig("host-signature", func(o proto4.Object) *types.Signature {
			return &o.(*proto4.RPCLatestRevisionResponse).Contract.HostSignature
		})...)
		ms = append(ms, hostMut{"payout-shifted", func(e *sim.Env, c *c10Rig, o proto4.Object, raw []byte) bool {
			m := o.(*proto4.RPCLatestRevisionResponse)
			d := m.Contract.RenterOutput.Value.Div64(2)
			m.Contract.RenterOutput.Value = m.Contract.RenterOutput.Value.Sub(d)
			m.Contract.HostOutput.Value = m.Contract.HostOutput.Value.Add(d)
			return true
		}}, hostMut{"revision-number", func(e *sim.Env, c *c10Rig, o proto4.Object, raw []byte) bool {
			o.(*proto4.RPCLatestRevisionResponse).Contract.RevisionNumber += 5
			return true
		}}, hostMut{"made-up-contract-with-throwaway-keys", func(e *sim.Env, c *c10Rig, o proto4.Object, raw []byte) bool {
			// a contract of the host's own making: both public keys replaced by
			// keys the host holds, everything paid to the host, signed by both
			m := o.(*proto4.RPCLatestRevisionResponse)
			k1, k2 := types.NewPrivateKeyFromSeed(e.Bytes(32)), types.NewPrivateKeyFromSeed(e.Bytes(32))
			m.Contract.HostPublicKey, m.Contract.RenterPublicKey = k1.PublicKey(), k2.PublicKey()
			m.Contract.HostOutput.Value = m.Contract.HostOutput.Value.Add(m.Contract.RenterOutput.Value)
			m.Contract.RenterOutput.Value = types.ZeroCurrency
			m.Contract.RevisionNumber = types.MaxRevisionNumber - 1
			sh := (consensus.State{}).ContractSigHash(m.Contract)
			m.Contract.HostSignature, m.Contract.RenterSignature = k1.SignHash(sh), k2.SignHash(sh)
			return true
		}}, hostMut{"host-key-swapped-and-resigned", func(e *sim.Env, c *c10Rig, o proto4.Object, raw []byte) bool {
			m := o.(*proto4.RPCLatestRevisionResponse)
			k := types.NewPrivateKeyFromSeed(e.Bytes(32))
			m.Contract.HostPublicKey = k.PublicKey()
			m.Contract.HostSignature = k.SignHash((consensus.State{}).ContractSigHash(m.Contract))
			return true
		}})
	case *proto4.RPCFormContractResponse:
		ms = append(ms, hostMut{"host-inputs-dropped", func(e *sim.Env, c *c10Rig, o proto4.Object, raw []byte) bool {
			m := o.(*proto4.RPCFormContractResponse)
			if len(m.HostInputs) == 0 {
				return false
			}
			m.HostInputs = m.HostInputs[:len(m.HostInputs)-1]
			return true
		}})
	case *proto4.RPCFormContractThirdResponse:
		ms = append(ms, hostMut{"final-txn-altered", func(e *sim.Env, c *c10Rig, o proto4.Object, raw []byte) bool {
			m := o.(*proto4.RPCFormContractThirdResponse)
			if len(m.TransactionSet) == 0 {
				return false
			}
			t := &m.TransactionSet[len(m.TransactionSet)-1]
			t.MinerFee = t.MinerFee.Add(types.NewCurrency64(1))
			return true
		}}, hostMut{"host-contract-signature-flip", func(e *sim.Env, c *c10Rig, o proto4.Object, raw []byte) bool {
			m := o.(*proto4.RPCFormContractThirdResponse)
			if len(m.TransactionSet) == 0 || len(m.TransactionSet[len(m.TransactionSet)-1].FileContracts) == 0 {
				return false
			}
			flipSig(&m.TransactionSet[len(m.TransactionSet)-1].FileContracts[0].HostSignature, e)
			return true
		}}, hostMut{"final-set-empty", func(e *sim.Env, c *c10Rig, o proto4.Object, raw []byte) bool {
			o.(*proto4.RPCFormContractThirdResponse).TransactionSet = nil
			return true
		}})
	}
	return ms
}

type c10Rig struct {
	*c08Rig
	acctKey     types.PrivateKey
	otherHashes []types.Hash256
	otherSig    types.Signature
	replTarget  types.Currency
	// parameters of the read in flight (for coherent lies about it)
	prevRoots        []types.Hash256 // the contract's roots before the exchange in flight
	readSector       int
	readOff, readLen uint64
}

// c10Call is one renter RPC with its binding predicate.
type c10Call struct {
	name string
	rpc  types.Specifier
	// run performs the call and returns an error, or nil after checking the
	// binding predicate against the harness's ground truth (violations are raised inside)
	run func(c *c10Rig, mutated string) error
}

func (c *c10Rig) hostRoots() []types.Hash256 {
	st, err := c.hostState(c.contract.ID)
	if err != nil {
		c.e.Infraf("host state: %v", err)
	}
	return st.Roots
}

// syncFromHost adopts the host's real revision (ground truth, not via RPC).
func (c *c10Rig) syncFromHost() {
	st, err := c.hostState(c.contract.ID)
	if err != nil {
		c.e.Infraf("host state: %v", err)
	}
	c.contract.Revision = st.Revision
	c.committed[c.contract.ID] = st.Revision
	c.seenCall = len(c.contractor.calls)
}

// checkRevisionBound: a returned revision is host-signed and costs no more than cost.
func (c *c10Rig) checkReturnedRevision(what, mutated string, prev, rev types.V2FileContract, maxCost types.Currency) {
	e := c.e
	sh := (consensus.State{}).ContractSigHash(rev)
	if !c.hostKey.PublicKey().VerifyHash(sh, rev.HostSignature) {
		e.Violationf("C10.revision-host-signed", what+":"+mutated, "%s (host response corrupted: %s) succeeded and returned a revision without a valid host signature", what, mutated)
	}
	if rev.RenterOutput.Value.Cmp(prev.RenterOutput.Value) > 0 {
		return
	}
	if paid := prev.RenterOutput.Value.Sub(rev.RenterOutput.Value); paid.Cmp(maxCost) > 0 {
		e.Violationf("C10.price-bound", what+":"+mutated, "%s (%s) succeeded and charges %v, more than the agreed %v", what, mutated, paid, maxCost)
	}
}

func (c *c10Rig) calls() []c10Call {
	ctx := context.Background()
	e := c.e
	return []c10Call{
		{"read", proto4.RPCReadSectorID, func(c *c10Rig, mutated string) error {
			c.readSector = e.Intn(4)
			s := testSector(c.readSector)
			off := uint64(e.Intn(1000)) * 64
			l := uint64(e.Range(1, 64)) * 64
			c.readOff, c.readLen = off, l
			var buf bytes.Buffer
			_, err := rhp4.RPCReadSector(ctx, c.tr, c.prices, c.token(c.acctKey), &buf, s.root, off, l)
			if err == nil && !bytes.Equal(buf.Bytes(), s.data[off:off+l]) {
				e.Violationf("C10.read-bound", mutated, "RPCReadSector (host response corrupted: %s) succeeded but delivered %d bytes that are not sector[%d:%d]", mutated, buf.Len(), off, off+l)
			}
			return err
		}},
		{"write", proto4.RPCWriteSectorID, func(c *c10Rig, mutated string) error {
			l := uint64(e.Range(1, 32)) * 64
			data := e.Bytes(int(l))
			res, err := rhp4.RPCWriteSector(ctx, c.tr, c.prices, c.token(c.acctKey), bytes.NewReader(data), l)
			if err == nil {
				var sec [proto4.SectorSize]byte
				copy(sec[:], data)
				if want := proto4.SectorRoot(&sec); res.Root != want {
					e.Violationf("C10.write-bound", mutated, "RPCWriteSector (%s) succeeded with root %v, the root of the bytes sent is %v", mutated, res.Root, want)
				}
			}
			return err
		}},
		{"verify", proto4.RPCVerifySectorID, func(c *c10Rig, mutated string) error {
			_, err := rhp4.RPCVerifySector(ctx, c.tr, c.prices, c.token(c.acctKey), testSector(e.Intn(4)).root)
			if err == nil && mutated != "none" {
				e.Violationf("C10.verify-bound", mutated, "RPCVerifySector succeeded although the host's proof / leaf was corrupted (%s)", mutated)
			}
			return err
		}},
		{"append", proto4.RPCAppendSectorsID, func(c *c10Rig, mutated string) error {
			prevRoots, prev := c.hostRoots(), c.contract.Revision
			c.prevRoots = prevRoots
			roots := []types.Hash256{testSector(e.Intn(8)).root, testSector(e.Intn(8)).root}
			if e.Chance(1, 3) {
				var r types.Hash256
				copy(r[:], e.Bytes(32))
				roots = append(roots, r)
			}
			res, err := rhp4.RPCAppendSectors(ctx, c.tr, c.signer, c.cs(), c.prices, c.contract, roots)
			if err == nil {
				want := proto4.MetaRoot(append(append([]types.Hash256(nil), prevRoots...), res.Sectors...))
				if res.Revision.FileMerkleRoot != want {
					e.Violationf("C10.append-bound", mutated, "RPCAppendSectors (%s) succeeded with a Merkle root that is not the previous roots plus the %d sectors it reports as appended", mutated, len(res.Sectors))
				}
				for _, s := range res.Sectors {
					found := false
					for _, r := range roots {
						found = found || r == s
					}
					if !found {
						e.Violationf("C10.append-bound", mutated+":foreign", "RPCAppendSectors reports a sector that was not requested")
					}
				}
				max := c.prices.RPCAppendSectorsCost(uint64(len(roots)), prev.ExpirationHeight-c.prices.TipHeight).RenterCost()
				c.checkReturnedRevision("RPCAppendSectors", mutated, prev, res.Revision, max)
			}
			return err
		}},
		{"free", proto4.RPCFreeSectorsID, func(c *c10Rig, mutated string) error {
			prevRoots, prev := c.hostRoots(), c.contract.Revision
			if len(prevRoots) == 0 {
				return nil
			}
			idx := []uint64{uint64(e.Intn(len(prevRoots)))}
			if len(prevRoots) > 1 && e.Chance(1, 2) {
				idx = append(idx, uint64(e.Intn(len(prevRoots))))
			}
			res, err := rhp4.RPCFreeSectors(ctx, c.tr, c.signer, c.cs(), c.prices, c.contract, idx)
			if err == nil {
				if want := proto4.MetaRoot(applyFreeModel(prevRoots, idx)); res.Revision.FileMerkleRoot != want {
					e.Violationf("C10.free-bound", mutated, "RPCFreeSectors(%v) (%s) succeeded with a Merkle root that is not the previous roots with those sectors swap-removed", idx, mutated)
				}
				c.checkReturnedRevision("RPCFreeSectors", mutated, prev, res.Revision, c.prices.RPCFreeSectorsCost(len(idx)).RenterCost())
			}
			return err
		}},
		{"roots", proto4.RPCSectorRootsID, func(c *c10Rig, mutated string) error {
			prevRoots, prev := c.hostRoots(), c.contract.Revision
			if len(prevRoots) == 0 {
				return nil
			}
			off := uint64(e.Intn(len(prevRoots)))
			l := uint64(e.Range(1, len(prevRoots)-int(off)))
			res, err := rhp4.RPCSectorRoots(ctx, c.tr, c.cs(), c.prices, c.signer, c.contract, off, l)
			if err == nil {
				if fmt.Sprint(res.Roots) != fmt.Sprint(prevRoots[off:off+l]) {
					e.Violationf("C10.roots-bound", mutated, "RPCSectorRoots(%d,%d) (%s) succeeded with roots that are not the contract's", off, l, mutated)
				}
				c.checkReturnedRevision("RPCSectorRoots", mutated, prev, res.Revision, c.prices.RPCSectorRootsCost(l).RenterCost())
			}
			return err
		}},
		{"fund", proto4.RPCFundAccountsID, func(c *c10Rig, mutated string) error {
			prev := c.contract.Revision
			amt := types.Siacoins(uint32(e.Range(1, 5)))
			res, err := rhp4.RPCFundAccounts(ctx, c.tr, c.cs(), c.signer, c.contract, []proto4.AccountDeposit{{Account: proto4.Account(c.acctKey.PublicKey()), Amount: amt}})
			if err == nil {
				c.checkReturnedRevision("RPCFundAccounts", mutated, prev, res.Revision, amt)
			}
			return err
		}},
		{"replenish", proto4.RPCReplenishAccountsID, func(c *c10Rig, mutated string) error {
			prev := c.contract.Revision
			accts := []proto4.Account{c.acct(0), c.acct(1)}
			c.replTarget = types.Siacoins(uint32(e.Range(30, 60)))
			res, err := rhp4.RPCReplenishAccounts(ctx, c.tr, rhp4.RPCReplenishAccountsParams{Accounts: accts, Target: c.replTarget, Contract: c.contract}, c.cs(), c.signer)
			if err == nil && res.Revision.RevisionNumber != prev.RevisionNumber {
				c.checkReturnedRevision("RPCReplenishAccounts", mutated, prev, res.Revision, c.replTarget.Mul64(uint64(len(accts))))
			}
			return err
		}},
		{"latest-revision", proto4.RPCLatestRevisionID, func(c *c10Rig, mutated string) error {
			res, err := rhp4.RPCLatestRevision(ctx, c.tr, c.contract.ID)
			if err == nil {
				sh := (consensus.State{}).ContractSigHash(res.Contract)
				if !c.hostKey.PublicKey().VerifyHash(sh, res.Contract.HostSignature) {
					e.Violationf("C10.revision-host-signed", "RPCLatestRevision:"+mutated, "RPCLatestRevision (host response corrupted: %s) succeeded and returned a revision without a valid host signature", mutated)
				}
			}
			return err
		}},
		{"form", proto4.RPCFormContractID, func(c *c10Rig, mutated string) error {
			allowance, collateral := types.Siacoins(2000), types.Siacoins(200)
			for proto4.MinRenterAllowance(c.prices, collateral).Cmp(types.Siacoins(20000)) > 0 {
				collateral = collateral.Div64(2)
			}
			if min := proto4.MinRenterAllowance(c.prices, collateral); allowance.Cmp(min) < 0 {
				allowance = min.Mul64(2)
			}
			res, err := rhp4.RPCFormContract(ctx, c.tr, c.s.cm, c.signer, c.cs(), c.prices, c.hostKey.PublicKey(), c.hw.Address(), proto4.RPCFormContractParams{
				RenterPublicKey: c.renterKey.PublicKey(), RenterAddress: c.rw.Address(),
				Allowance: allowance, Collateral: collateral, ProofHeight: c.s.cm.Tip().Height + 60,
			})
			if err == nil {
				sh := (consensus.State{}).ContractSigHash(res.Contract.Revision)
				if !c.hostKey.PublicKey().VerifyHash(sh, res.Contract.Revision.HostSignature) {
					e.Violationf("C10.revision-host-signed", "RPCFormContract:"+mutated, "RPCFormContract (%s) succeeded with a contract the host did not sign", mutated)
				}
				if len(res.FormationSet.Transactions) == 0 || res.FormationSet.Transactions[len(res.FormationSet.Transactions)-1].V2FileContractID(res.FormationSet.Transactions[len(res.FormationSet.Transactions)-1].ID(), 0) != res.Contract.ID {
					e.Violationf("C10.form-bound", mutated, "RPCFormContract (%s) succeeded with a transaction set that does not create the returned contract", mutated)
				}
			}
			return err
		}},
	}
}

func runC10(e *sim.Env) {
	var mutate func(step int, st simrhp.Step, o proto4.Object, raw []byte)
	base := &c08Rig{committed: map[types.FileContractID]types.V2FileContract{}, balances: map[proto4.Account]types.Currency{}, poolBal: map[proto4.Account]types.Currency{}, attached: map[proto4.Account][]proto4.Account{}, recorded: map[string][]proto4.Object{}}
	// countersign: after a corrupted host message, the Byzantine host does not
	// run the honest server for the rest of the exchange but countersigns
	// whatever revision the renter agreed to sign
	countersign, corrupted := false, false
	// answerAnything: the Byzantine host answers the first message of an
	// exchange itself (requests an honest host would refuse)
	answerAnything := false
	var freeRoots []types.Hash256 // the contract's roots, for the host's own free-sectors answer
	var signer *fundAndSign
	base.rhpRig = newRHPRig(e, "C10", simrhp.TypedRelayAnswering(func(n int, id types.Specifier, step int, st simrhp.Step, o proto4.Object, raw []byte) simrhp.Action {
		if mutate != nil && !st.FromRenter {
			mutate(step, st, o, raw)
		}
		if countersign && corrupted && st.FromRenter && step > 0 && raw == nil {
			return simrhp.Impersonate
		}
		if answerAnything && st.FromRenter && step == 0 && raw == nil {
			return simrhp.Impersonate
		}
		return simrhp.Pass
	}, func(n int, id types.Specifier, step int, renterMsg proto4.Object) proto4.Object {
		sig := base.hostKey.SignHash(signer.lastHash)
		switch m := renterMsg.(type) {
		case *proto4.RPCFreeSectorsRequest:
			// a host that frees whatever list it is sent, duplicates included,
			// with a proof that is valid for exactly that list
			roots := append([]types.Hash256(nil), freeRoots...)
			var resp *proto4.RPCFreeSectorsResponse
			func() {
				defer func() { recover() }()
				for _, idx := range m.Indices {
					if idx >= uint64(len(roots)) {
						return
					}
				}
				th, lh := proto4.BuildFreeSectorsProof(roots, m.Indices)
				k := len(roots)
				for i, idx := range m.Indices {
					roots[idx], roots[k-i-1] = roots[k-i-1], roots[idx]
				}
				roots = roots[:k-len(m.Indices)]
				resp = &proto4.RPCFreeSectorsResponse{OldSubtreeHashes: th, OldLeafHashes: lh, NewMerkleRoot: proto4.MetaRoot(roots)}
			}()
			if resp == nil {
				return nil
			}
			return resp
		case *proto4.RPCSectorRootsRequest:
			// a host that answers any request for roots, whatever the range:
			// as many made-up roots as asked for, no proof, a genuine signature
			// over the revision the renter paid with
			resp := &proto4.RPCSectorRootsResponse{HostSignature: sig}
			for i := uint64(0); i < m.Length && i < 64; i++ {
				resp.Roots = append(resp.Roots, types.HashBytes([]byte{byte(i), 0xC1, 0x0}))
			}
			return resp
		case *proto4.RPCAppendSectorsSecondResponse:
			return &proto4.RPCAppendSectorsThirdResponse{HostSignature: sig}
		case *proto4.RPCFreeSectorsSecondResponse:
			return &proto4.RPCFreeSectorsThirdResponse{HostSignature: sig}
		case *proto4.RPCReplenishAccountsSecondResponse:
			return &proto4.RPCReplenishAccountsThirdResponse{HostSignature: sig}
		}
		return nil
	}))
	signer = base.signer
	c := &c10Rig{c08Rig: base}
	c.contract = c.form(types.Siacoins(20000), types.Siacoins(8000), 120)
	c.committed[c.contract.ID] = c.contract.Revision
	for i := 0; i < 3; i++ {
		c.accounts = append(c.accounts, c.newAccountKey())
	}
	for i := 0; i < 8; i++ {
		s := testSector(i)
		c.sectors.EphemeralSectorStore.StoreSector(s.root, s.data, nil, 1<<40)
	}
	c.acctKey = c.newAccountKey()
	ctx := context.Background()
	if res, err := rhp4.RPCFundAccounts(ctx, c.tr, c.cs(), c.signer, c.contract, []proto4.AccountDeposit{{Account: proto4.Account(c.acctKey.PublicKey()), Amount: types.Siacoins(400)}}); err != nil {
		e.Violationf("C10.honest-rpc", "fund", "honest fund failed: %v", err)
	} else {
		c.contract.Revision = res.Revision
	}
	if res, err := rhp4.RPCAppendSectors(ctx, c.tr, c.signer, c.cs(), c.prices, c.contract, []types.Hash256{testSector(0).root, testSector(1).root, testSector(2).root, testSector(3).root, testSector(4).root}); err != nil {
		e.Violationf("C10.honest-rpc", "append", "honest append failed: %v", err)
	} else {
		c.contract.Revision = res.Revision
	}
	c.syncFromHost()
	// half of the runs: one sector is freed first, so that the contract has
	// spare capacity (capacity above file size) throughout the table
	if e.Chance(1, 2) {
		if res, err := rhp4.RPCFreeSectors(ctx, c.tr, c.signer, c.cs(), c.prices, c.contract, []uint64{uint64(e.Intn(5))}); err != nil {
			e.Violationf("C10.honest-rpc", "free", "honest free failed: %v", err)
		} else {
			c.contract.Revision = res.Revision
		}
		c.syncFromHost()
		e.Shape("spare-capacity")
	}

	cases := 0
	for _, call := range c.calls() {
		// probe: which host->renter messages does this exchange carry, and which
		// corruptions apply to them?
		type slot struct {
			step int
			raw  bool
			mut  hostMut
		}
		var slots []slot
		mutate = func(step int, st simrhp.Step, o proto4.Object, raw []byte) {
			for _, m := range hostMutations(o, raw != nil) {
				slots = append(slots, slot{step, raw != nil, m})
			}
			// remember values of this exchange for "swapped with another exchange"
			switch v := o.(type) {
			case *proto4.RPCSectorRootsResponse:
				c.otherHashes, c.otherSig = append([]types.Hash256(nil), v.Proof...), v.HostSignature
			case *proto4.RPCAppendSectorsThirdResponse:
				c.otherSig = v.HostSignature
			case *proto4.RPCReadSectorResponse:
				if len(c.otherHashes) == 0 {
					c.otherHashes = append([]types.Hash256(nil), v.Proof...)
				}
			}
		}
		var err error
		e.Guard("C10.panic", "RPC "+call.name, func() { err = call.run(c, "none") })
		mutate = nil
		waitQuiet()
		c.syncFromHost()
		if err != nil {
			e.Violationf("C10.honest-rpc", call.name, "undisturbed %s failed: %v", call.name, err)
		}
		// walk the table completely
		for _, sl := range slots {
			e.Step()
			applied := false
			name := fmt.Sprintf("%s@%d", sl.mut.name, sl.step)
			mutate = func(step int, st simrhp.Step, o proto4.Object, raw []byte) {
				if applied || step != sl.step || (raw != nil) != sl.raw {
					return
				}
				if sl.mut.fn(e, c, o, raw) {
					applied = true
				}
			}
			var merr error
			e.Guard("C10.panic", "RPC "+call.name+" ("+name+")", func() { merr = call.run(c, name) })
			mutate = nil
			waitQuiet()
			c.syncFromHost()
			cases++
			if applied && !sl.raw && sl.step+1 < len(simrhp.Flows[call.rpc]) && simrhp.Flows[call.rpc][sl.step+1].FromRenter {
				// the same corruption from a host that then countersigns
				// whatever the renter signs instead of checking it
				applied2 := false
				mutate = func(step int, st simrhp.Step, o proto4.Object, raw []byte) {
					if applied2 || step != sl.step || raw != nil {
						return
					}
					if sl.mut.fn(e, c, o, raw) {
						applied2, corrupted = true, true
					}
				}
				countersign, corrupted = true, false
				var cerr error
				e.Guard("C10.panic", "RPC "+call.name+" ("+name+", countersigned)", func() { cerr = call.run(c, name+"+countersigned") })
				mutate, countersign, corrupted = nil, false, false
				waitQuiet()
				c.syncFromHost()
				cases++
				if applied2 {
					e.Fault("host-" + call.name + "-" + sl.mut.name + "+countersigned")
					e.Shape(call.name, name+"+cs", fmt.Sprint(cerr != nil))
					e.Logf("%s with host response corrupted (%s) and countersigned -> err=%v", call.name, name, cerr != nil)
				}
			}
			if applied {
				e.Fault("host-" + call.name + "-" + sl.mut.name)
				e.Shape(call.name, name, fmt.Sprint(merr != nil))
				e.Logf("%s with host response corrupted (%s) -> err=%v", call.name, name, merr != nil)
				if merr != nil {
					e.Probe("corruption_detected")
				} else {
					e.Probe("corruption_harmless_or_bound")
				}
			}
		}
	}
	// requests an honest host refuses, put to a host that answers anyway:
	// sector roots of a range that reaches beyond the contract, and roots of a
	// contract without sectors. Nothing the host can say makes those the
	// contract's roots.
	{
		n := c.contract.Revision.Filesize / proto4.SectorSize
		empty := c.form(types.Siacoins(2000), types.Siacoins(200), 100)
		c.mine(1)
		c.refreshPrices()
		type probe struct {
			what     string
			contract rhp4.ContractRevision
			off, l   uint64
		}
		for _, pr := range []probe{
			{"range beyond the contract", c.contract, n - uint64(e.Range(0, 2)), uint64(e.Range(3, 6))},
			{"range starting beyond the contract", c.contract, n + uint64(e.Range(0, 3)), uint64(e.Range(1, 4))},
			{"contract without sectors", empty, 0, uint64(e.Range(1, 3))},
		} {
			e.Step()
			answerAnything = true
			var res rhp4.RPCSectorRootsResult
			var err error
			e.Guard("C10.panic", "RPCSectorRoots ("+pr.what+", answered by the host anyway)", func() {
				res, err = rhp4.RPCSectorRoots(ctx, c.tr, c.cs(), c.prices, c.signer, pr.contract, pr.off, pr.l)
			})
			answerAnything = false
			waitQuiet()
			e.Logf("RPCSectorRoots(%s: offset %d length %d) answered by the host anyway -> err=%v", pr.what, pr.off, pr.l, err)
			e.Shape("roots-out-of-range", pr.what, fmt.Sprint(err != nil))
			e.Fault("host-answers-out-of-range-roots")
			if err == nil {
				e.Violationf("C10.roots-bound", "out-of-range:"+pr.what, "RPCSectorRoots(offset %d, length %d) of a contract with %d sectors (%s) succeeded with %d roots the host made up, paying %v", pr.off, pr.l, pr.contract.Revision.Filesize/proto4.SectorSize, pr.what, len(res.Roots), res.Usage.RenterCost())
			}
			cases++
		}
		c.syncFromHost()
		// free sectors with a repeated index that is not adjacent in the list,
		// put to a host that frees whatever list arrives: the signed revision
		// frees the distinct indices asked for, no more
		if roots := c.hostRoots(); len(roots) >= 4 {
			e.Step()
			k := uint64(len(roots))
			a := uint64(e.Range(1, int(k)-2))
			b := uint64(e.Intn(int(a)))
			indices := []uint64{a, b, a}
			freeRoots = roots
			want := applyFreeModel(roots, indices)
			answerAnything = true
			var res rhp4.RPCFreeSectorsResult
			var err error
			e.Guard("C10.panic", "RPCFreeSectors (repeated index, lenient host)", func() {
				res, err = rhp4.RPCFreeSectors(ctx, c.tr, c.signer, c.cs(), c.prices, c.contract, indices)
			})
			answerAnything = false
			waitQuiet()
			e.Logf("RPCFreeSectors(%v of %d) in front of a host that frees whatever it is sent -> err=%v", indices, k, err)
			e.Shape("free-repeated-index", fmt.Sprint(err != nil))
			e.Fault("host-frees-any-list")
			if err == nil {
				if res.Revision.Filesize != uint64(len(want))*proto4.SectorSize || res.Revision.FileMerkleRoot != proto4.MetaRoot(want) {
					e.Violationf("C10.free-bound", "repeated-index", "RPCFreeSectors(%v) of a contract with %d sectors succeeded with a revision of %d sectors (Merkle root matches the list model: %v): the renter signed away sectors it did not ask to free", indices, k, res.Revision.Filesize/proto4.SectorSize, res.Revision.FileMerkleRoot == proto4.MetaRoot(want))
				}
				e.Probe("lenient_host_free_accepted")
			}
			cases++
			c.syncFromHost()
		}
	}
	e.Probes["table_cases"] += cases
	e.Nontrivial = true
}

func init() {
	register(&Prop{
		ID: "C10", Run: runC10, Quick: 120, Thorough: 3000, Level: "fault_enumeration",
		Rule:        "each run walks a complete table: for every renter RPC (read, write, verify, append, free, sector roots, fund accounts, replenish accounts, latest revision, form contract) an undisturbed exchange is probed for its host->renter messages, then the RPC is repeated once per (message, field, corruption) with the real server behind a typed relay acting as the Byzantine host: proofs and root lists flipped / truncated / extended / replaced by values of another exchange, lengths and counts changed, data bytes flipped or replaced by another sector's, Merkle roots flipped or left unchanged, host signatures flipped / replayed / genuine-but-over-something-else, accepted flags flipped or all cleared together with an arbitrary new root, deposits above the target or inflated, a shorter read answered coherently (shorter length with its own genuine proof), host inputs dropped, final transaction altered or empty; sector-root requests an honest host refuses (range beyond the contract, contract without sectors) answered by a host that makes roots up; a free-sectors call with a repeated, non-adjacent index in front of a host that frees whatever list it is sent; every corruption of a message that the renter answers with its signature is run twice: in front of the honest server, and from a host that then countersigns whatever revision the renter signed; concrete values (offsets, indices, bits) are drawn; oracle: the call returns an error or the binding predicate holds against the harness's ground truth (sector bytes, real roots, list model, host key, price table); distinct = (rpc, message, corruption, outcome); all runs non-trivial",
		Real:        []string{"rhp4 RPC* client functions (the code under test)", "rhp4.Server as the honest core of the Byzantine host", "wallets, chain.Manager, reference contractor and sector store"},
		Stub:        []string{"transport: simrhp typed relay rewriting host->renter messages", "disk: simdisk.DB"},
		Assumptions: []string{"renew / refresh responses are corrupted in C16", "account balances and settings are unauthenticated by design and carry no binding claim"},
	})
}
