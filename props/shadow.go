package props

import (
	"bytes"
	"fmt"

	"go.sia.tech/core/consensus"
	"go.sia.tech/core/types"
	"go.sia.tech/coreutils/chain"

	"verif/gen"
)

// shadow is a subscriber-side ledger folded only from the element diffs and
// proof updates carried by the update stream (the protocol a subscriber is
// expected to follow: apply the diffs, then update every stored proof).
type shadow struct {
	idx  types.ChainIndex
	sc   map[types.SiacoinOutputID]types.SiacoinElement
	sf   map[types.SiafundOutputID]types.SiafundElement
	fc   map[types.FileContractID]types.FileContractElement
	v2fc map[types.FileContractID]types.V2FileContractElement
	cie  map[uint64]types.ChainIndexElement
}

func newShadow() *shadow {
	return &shadow{
		sc: map[types.SiacoinOutputID]types.SiacoinElement{}, sf: map[types.SiafundOutputID]types.SiafundElement{},
		fc: map[types.FileContractID]types.FileContractElement{}, v2fc: map[types.FileContractID]types.V2FileContractElement{},
		cie: map[uint64]types.ChainIndexElement{},
	}
}

func (s *shadow) clone() *shadow {
	n := newShadow()
	n.idx = s.idx
	for k, v := range s.sc {
		n.sc[k] = v.Copy()
	}
	for k, v := range s.sf {
		n.sf[k] = v.Copy()
	}
	for k, v := range s.fc {
		n.fc[k] = v.Copy()
	}
	for k, v := range s.v2fc {
		n.v2fc[k] = v.Copy()
	}
	for k, v := range s.cie {
		n.cie[k] = v.Copy()
	}
	return n
}

type proofUpdater interface{ UpdateElementProof(*types.StateElement) }

func (s *shadow) updateProofs(u proofUpdater) {
	for k, e := range s.sc {
		u.UpdateElementProof(&e.StateElement)
		s.sc[k] = e
	}
	for k, e := range s.sf {
		u.UpdateElementProof(&e.StateElement)
		s.sf[k] = e
	}
	for k, e := range s.fc {
		u.UpdateElementProof(&e.StateElement)
		s.fc[k] = e
	}
	for k, e := range s.v2fc {
		u.UpdateElementProof(&e.StateElement)
		s.v2fc[k] = e
	}
	for k, e := range s.cie {
		u.UpdateElementProof(&e.StateElement)
		s.cie[k] = e
	}
}

func (s *shadow) apply(au chain.ApplyUpdate) {
	for _, d := range au.SiacoinElementDiffs() {
		switch {
		case d.Created && d.Spent:
		case d.Created:
			s.sc[d.SiacoinElement.ID] = d.SiacoinElement.Copy()
		case d.Spent:
			delete(s.sc, d.SiacoinElement.ID)
		}
	}
	for _, d := range au.SiafundElementDiffs() {
		switch {
		case d.Created && d.Spent:
		case d.Created:
			s.sf[d.SiafundElement.ID] = d.SiafundElement.Copy()
		case d.Spent:
			delete(s.sf, d.SiafundElement.ID)
		}
	}
	for _, d := range au.FileContractElementDiffs() {
		switch {
		case d.Resolved:
			delete(s.fc, d.FileContractElement.ID)
		case d.Revision != nil:
			rev, _ := d.RevisionElement()
			s.fc[d.FileContractElement.ID] = rev.Copy()
		case d.Created:
			s.fc[d.FileContractElement.ID] = d.FileContractElement.Copy()
		}
	}
	for _, d := range au.V2FileContractElementDiffs() {
		switch {
		case d.Resolution != nil:
			delete(s.v2fc, d.V2FileContractElement.ID)
		case d.Revision != nil:
			rev, _ := d.V2RevisionElement()
			s.v2fc[d.V2FileContractElement.ID] = rev.Copy()
		case d.Created:
			s.v2fc[d.V2FileContractElement.ID] = d.V2FileContractElement.Copy()
		}
	}
	cie := au.ChainIndexElement()
	s.cie[cie.ChainIndex.Height] = cie.Copy()
	s.updateProofs(au.ApplyUpdate)
	s.idx = au.State.Index
}

func (s *shadow) revert(ru chain.RevertUpdate) {
	for _, d := range ru.SiacoinElementDiffs() {
		switch {
		case d.Created && d.Spent:
		case d.Created:
			delete(s.sc, d.SiacoinElement.ID)
		case d.Spent:
			s.sc[d.SiacoinElement.ID] = d.SiacoinElement.Copy()
		}
	}
	for _, d := range ru.SiafundElementDiffs() {
		switch {
		case d.Created && d.Spent:
		case d.Created:
			delete(s.sf, d.SiafundElement.ID)
		case d.Spent:
			s.sf[d.SiafundElement.ID] = d.SiafundElement.Copy()
		}
	}
	for _, d := range ru.FileContractElementDiffs() {
		switch {
		case d.Created && d.Resolved:
		case d.Created:
			delete(s.fc, d.FileContractElement.ID)
		case d.Resolved, d.Revision != nil:
			s.fc[d.FileContractElement.ID] = d.FileContractElement.Copy()
		}
	}
	for _, d := range ru.V2FileContractElementDiffs() {
		switch {
		case d.Created:
			delete(s.v2fc, d.V2FileContractElement.ID)
		case d.Resolution != nil, d.Revision != nil:
			s.v2fc[d.V2FileContractElement.ID] = d.V2FileContractElement.Copy()
		}
	}
	delete(s.cie, ru.State.Index.Height+1)
	s.updateProofs(ru.RevertUpdate)
	s.idx = ru.State.Index
}

// compare checks the shadow against the reference ledger of its index.
func (s *shadow) compare(l *gen.Ledger) error {
	if len(s.sc) != len(l.SC) {
		return fmt.Errorf("%d siacoin elements, ledger has %d", len(s.sc), len(l.SC))
	}
	for id, want := range l.SC {
		got, ok := s.sc[id]
		if !ok {
			return fmt.Errorf("siacoin element %v missing", id)
		}
		if !bytes.Equal(gen.Enc(got), gen.Enc(want)) {
			return fmt.Errorf("siacoin element %v differs from the ledger (leaf %d vs %d, proof %d vs %d hashes, maturity %d vs %d)", id, got.StateElement.LeafIndex, want.StateElement.LeafIndex, len(got.StateElement.MerkleProof), len(want.StateElement.MerkleProof), got.MaturityHeight, want.MaturityHeight)
		}
	}
	if len(s.sf) != len(l.SF) {
		return fmt.Errorf("%d siafund elements, ledger has %d", len(s.sf), len(l.SF))
	}
	for id, want := range l.SF {
		if got, ok := s.sf[id]; !ok || !bytes.Equal(gen.Enc(got), gen.Enc(want)) {
			return fmt.Errorf("siafund element %v missing or different (present=%v)", id, ok)
		}
	}
	if len(s.fc) != len(l.FC) {
		return fmt.Errorf("%d v1 contracts, ledger has %d", len(s.fc), len(l.FC))
	}
	for id, want := range l.FC {
		if got, ok := s.fc[id]; !ok || !bytes.Equal(gen.Enc(got), gen.Enc(want)) {
			return fmt.Errorf("v1 contract %v missing or different (present=%v)", id, ok)
		}
	}
	if len(s.v2fc) != len(l.V2FC) {
		return fmt.Errorf("%d v2 contracts, ledger has %d", len(s.v2fc), len(l.V2FC))
	}
	for id, want := range l.V2FC {
		if got, ok := s.v2fc[id]; !ok || !bytes.Equal(gen.Enc(got), gen.Enc(want)) {
			return fmt.Errorf("v2 contract %v missing or different (present=%v)", id, ok)
		}
	}
	for h, want := range l.CIE {
		if got, ok := s.cie[h]; !ok || !bytes.Equal(gen.Enc(got), gen.Enc(want)) {
			return fmt.Errorf("chain index element %d missing or different (present=%v)", h, ok)
		}
	}
	return nil
}

// verify checks every proof of the shadow against an accumulator.
func (s *shadow) verify(cs consensus.State) error {
	var txn types.V2Transaction
	for _, e := range s.sc {
		txn.SiacoinInputs = append(txn.SiacoinInputs, types.V2SiacoinInput{Parent: e.Copy()})
	}
	for _, e := range s.sf {
		txn.SiafundInputs = append(txn.SiafundInputs, types.V2SiafundInput{Parent: e.Copy()})
	}
	for _, e := range s.v2fc {
		txn.FileContractRevisions = append(txn.FileContractRevisions, types.V2FileContractRevision{Parent: e.Copy()})
	}
	return cs.Elements.ValidateTransactionElements(txn)
}
