package props

import (
	"bytes"
	"encoding/json"
	"fmt"
	"sort"
	"time"

	"go.sia.tech/core/types"
	"go.sia.tech/coreutils/chain"

	"verif/gen"
	"verif/sim"
	"verif/simdisk"
)

type poolSnap struct {
	v1   []types.Transaction
	v2   []types.V2Transaction
	ids  map[types.TransactionID]string // id -> "v1"/"v2"
	hash string
}

func snapPool(e *sim.Env, inv string, cm *chain.Manager) poolSnap {
	var p poolSnap
	e.Guard(inv+".panic", "PoolTransactions", func() {
		p.v1 = cm.PoolTransactions()
		p.v2 = cm.V2PoolTransactions()
	})
	p.ids = map[types.TransactionID]string{}
	var buf bytes.Buffer
	for _, t := range p.v1 {
		p.ids[t.ID()] = "v1"
		buf.Write(gen.Enc(t))
	}
	for _, t := range p.v2 {
		p.ids[t.ID()] = "v2"
		buf.Write(gen.Enc(t))
	}
	p.hash = fmt.Sprintf("%x", types.HashBytes(buf.Bytes()))
	// listing and lookup agree: what the pool reports, it also finds by id
	for i := range p.v1 {
		id := p.v1[i].ID()
		var got types.Transaction
		var ok bool
		e.Guard(inv+".panic", "PoolTransaction", func() { got, ok = cm.PoolTransaction(id) })
		if !ok || got.ID() != id {
			e.Violationf(inv+".lookup-agrees-with-listing", "v1", "PoolTransactions lists transaction %v (position %d of %d) but PoolTransaction(id) returns ok=%v id=%v", id, i, len(p.v1), ok, got.ID())
		}
	}
	for i := range p.v2 {
		id := p.v2[i].ID()
		var got types.V2Transaction
		var ok bool
		e.Guard(inv+".panic", "V2PoolTransaction", func() { got, ok = cm.V2PoolTransaction(id) })
		if !ok || got.ID() != id {
			e.Violationf(inv+".lookup-agrees-with-listing", "v2", "V2PoolTransactions lists transaction %v (position %d of %d) but V2PoolTransaction(id) returns ok=%v id=%v", id, i, len(p.v2), ok, got.ID())
		}
	}
	return p
}

func idSetString(m map[types.TransactionID]string) string {
	var s []string
	for id, k := range m {
		s = append(s, k+":"+id.String()[:8])
	}
	sort.Strings(s)
	return fmt.Sprint(s)
}

// buildChain grows a single valid chain of n blocks on the node (no forks).
func buildChain(e *sim.Env, inv string, s *chainSUT, tree *gen.Tree, n int, bo gen.BlockOpts) *gen.Node {
	tip := tree.ByID[s.cm.Tip().ID]
	for i := 0; i < n; i++ {
		tip = tree.Extend(e, tip, bo)
		var err error
		e.Guard(inv+".panic", "AddBlocks", func() { err = s.cm.AddBlocks([]types.Block{tip.Block}) })
		if err != nil {
			e.Violationf(inv+".valid-accepted", "setup-block-rejected", "valid block %s rejected: %v", tip.Describe(), err)
		}
	}
	return tip
}

// conflictV2 builds a transaction that double-spends the first siacoin input
// of victim.
func conflictV2(tb *gen.TxBuilder, victim types.V2Transaction) (types.V2Transaction, bool) {
	if len(victim.SiacoinInputs) == 0 || victim.SiacoinInputs[0].Parent.StateElement.LeafIndex == types.UnassignedLeafIndex {
		return types.V2Transaction{}, false
	}
	p := victim.SiacoinInputs[0].Parent.Copy()
	if p.SiacoinOutput.Value.IsZero() {
		return types.V2Transaction{}, false
	}
	txn := types.V2Transaction{
		SiacoinInputs:  []types.V2SiacoinInput{{Parent: p}},
		SiacoinOutputs: []types.SiacoinOutput{{Address: types.VoidAddress, Value: p.SiacoinOutput.Value}},
		ArbitraryData:  tb.E.Bytes(6),
	}
	tb.SignV2(&txn)
	return txn, true
}

func conflictV1(tb *gen.TxBuilder, net *gen.Net, l *gen.Ledger, victim types.Transaction) (types.Transaction, bool) {
	if len(victim.SiacoinInputs) == 0 {
		return types.Transaction{}, false
	}
	in := victim.SiacoinInputs[0]
	el, ok := l.SC[in.ParentID]
	if !ok || el.SiacoinOutput.Value.IsZero() {
		return types.Transaction{}, false
	}
	a, ok := net.ActorByAddr(el.SiacoinOutput.Address)
	if !ok {
		return types.Transaction{}, false
	}
	txn := types.Transaction{
		SiacoinInputs:  []types.SiacoinInput{{ParentID: in.ParentID, UnlockConditions: a.UC}},
		SiacoinOutputs: []types.SiacoinOutput{{Address: types.VoidAddress, Value: el.SiacoinOutput.Value}},
		ArbitraryData:  [][]byte{tb.E.Bytes(6)},
		Signatures:     []types.TransactionSignature{{ParentID: types.Hash256(in.ParentID), CoveredFields: types.CoveredFields{WholeTransaction: true}}},
	}
	h := l.State.WholeSigHash(txn, txn.Signatures[0].ParentID, 0, 0, nil)
	sig := a.SK.SignHash(h)
	txn.Signatures[0].Signature = sig[:]
	return txn, true
}

// poolSubsetV2 returns, in pool order, the pooled transactions selected by
// pick plus every pooled ancestor (creator of an ephemeral input) of those and
// of the transactions in children: the API wants unconfirmed parents to be
// part of the submitted set, before their children.
func poolSubsetV2(pool []types.V2Transaction, pick func(int) bool, children []types.V2Transaction) []types.V2Transaction {
	creator := map[types.SiacoinOutputID]int{}
	for i := range pool {
		id := pool[i].ID()
		for j := range pool[i].SiacoinOutputs {
			creator[pool[i].SiacoinOutputID(id, j)] = i
		}
	}
	need := map[int]bool{}
	var visit func(t *types.V2Transaction)
	visit = func(t *types.V2Transaction) {
		for _, in := range t.SiacoinInputs {
			if in.Parent.StateElement.LeafIndex != types.UnassignedLeafIndex {
				continue
			}
			if i, ok := creator[in.Parent.ID]; ok && !need[i] {
				need[i] = true
				visit(&pool[i])
			}
		}
	}
	for i := range pool {
		if pick(i) && !need[i] {
			need[i] = true
			visit(&pool[i])
		}
	}
	for i := range children {
		visit(&children[i])
	}
	var out []types.V2Transaction
	for i := range pool {
		if need[i] {
			out = append(out, pool[i].DeepCopy())
		}
	}
	return out
}

func encV2Set(txns []types.V2Transaction) []byte {
	var buf bytes.Buffer
	for _, t := range txns {
		buf.Write(gen.Enc(t))
	}
	return buf.Bytes()
}

func encV1Set(txns []types.Transaction) []byte {
	var buf bytes.Buffer
	for _, t := range txns {
		buf.Write(gen.Enc(t))
	}
	return buf.Bytes()
}

// scribbleV2 overwrites everything reachable from txns (caller-owned memory).
func scribbleV2(txns []types.V2Transaction) {
	for i := range txns {
		t := &txns[i]
		for j := range t.SiacoinInputs {
			for k := range t.SiacoinInputs[j].Parent.StateElement.MerkleProof {
				t.SiacoinInputs[j].Parent.StateElement.MerkleProof[k] = types.Hash256{0xde, 0xad}
			}
			for k := range t.SiacoinInputs[j].SatisfiedPolicy.Signatures {
				t.SiacoinInputs[j].SatisfiedPolicy.Signatures[k] = types.Signature{0xbe, 0xef}
			}
			t.SiacoinInputs[j].Parent.SiacoinOutput.Value = types.Siacoins(7)
		}
		for j := range t.SiacoinOutputs {
			t.SiacoinOutputs[j].Value = types.Siacoins(9)
		}
		for j := range t.SiafundInputs {
			for k := range t.SiafundInputs[j].Parent.StateElement.MerkleProof {
				t.SiafundInputs[j].Parent.StateElement.MerkleProof[k] = types.Hash256{0xde, 0xad}
			}
		}
		for j := range t.FileContractRevisions {
			for k := range t.FileContractRevisions[j].Parent.StateElement.MerkleProof {
				t.FileContractRevisions[j].Parent.StateElement.MerkleProof[k] = types.Hash256{0xde, 0xad}
			}
		}
		for j := range t.FileContractResolutions {
			for k := range t.FileContractResolutions[j].Parent.StateElement.MerkleProof {
				t.FileContractResolutions[j].Parent.StateElement.MerkleProof[k] = types.Hash256{0xde, 0xad}
			}
		}
		for j := range t.ArbitraryData {
			t.ArbitraryData[j] ^= 0xff
		}
		t.MinerFee = types.Siacoins(3)
	}
}

// runC14Full is the 1-in-12 variant with a pool at its weight limit: heavy
// transactions (~0.9 of a block each) are submitted until eviction gets
// involved; then, back to back and with no pool query between them, a fresh
// heavy transaction and one that is already pooled (with its pooled
// ancestors). An answer of known=true means that all of them are in the pool
// afterwards; listing and lookup agree throughout.
func runC14Full(e *sim.Env) {
	now := time.Now()
	net := gen.NewNet(e, now, gen.NetOpts{MaxHeight: 60, Regime: "v2"})
	tree := gen.NewTree(net)
	s := newChainSUT(e, net, simdisk.New())
	bo := gen.BlockOpts{Mix: gen.PayMix, MaxTx: 3, OrderSafe: true, Now: now, Strict: genStrict, Miner: net.Actors[0].Addr}
	tip := buildChain(e, "C14", s, tree, e.Range(int(net.Network.MaturityDelay)+4, int(net.Network.MaturityDelay)+12), bo)
	e.Shape("full-pool")
	e.Nontrivial = true
	heavyTxn := func(tb *gen.TxBuilder) (types.V2Transaction, bool) {
		var txn types.V2Transaction
		txn.ArbitraryData = make([]byte, 1_800_000)
		copy(txn.ArbitraryData, e.Bytes(8))
		txn.MinerFee = types.Siacoins(uint32(e.Range(1, 50)))
		if !tb.FundV2(&txn, txn.MinerFee) {
			return txn, false
		}
		tb.SignV2(&txn)
		return txn, tb.CommitV2("v2big", txn)
	}
	builder := func(p poolSnap) *gen.TxBuilder {
		tb := gen.NewTxBuilder(e, tip.L)
		tb.OrderSafe, tb.UsedEnds, tb.Strict = true, tree.UsedEnds, genStrict
		tb.Adopt(p.v1, p.v2)
		return tb
	}
	basis := tip.Index()
	for i, n := 0, e.Range(12, 18); i < n; i++ {
		e.Step()
		before := snapPool(e, "C14", s.cm)
		tb := builder(before)
		txn, ok := heavyTxn(tb)
		if !ok {
			break
		}
		if i < 9 || e.Chance(1, 2) {
			var err error
			e.Guard("C14.panic", "AddV2PoolTransactions", func() { _, err = s.cm.AddV2PoolTransactions(basis, []types.V2Transaction{txn.DeepCopy()}) })
			if err != nil {
				e.Violationf("C14.valid-accepted", "error:heavy", "a valid heavy transaction was rejected: %v", err)
			}
			continue
		}
		// back to back
		j := e.Intn(len(before.v2))
		again := poolSubsetV2(before.v2, func(i int) bool { return i == j }, nil)
		var err1, err2 error
		var known2 bool
		e.Guard("C14.panic", "AddV2PoolTransactions(back to back)", func() {
			_, err1 = s.cm.AddV2PoolTransactions(basis, []types.V2Transaction{txn.DeepCopy()})
			known2, err2 = s.cm.AddV2PoolTransactions(basis, again)
		})
		after := snapPool(e, "C14", s.cm)
		e.Logf("heavy Add (err=%v) then Add(pooled %v + %d ancestors) -> known=%v err=%v; pool %d -> %d", err1 != nil, before.v2[j].ID(), len(again)-1, known2, err2 != nil, len(before.ids), len(after.ids))
		e.Shape("back-to-back", fmt.Sprint(known2), fmt.Sprint(err2 != nil), fmt.Sprint(len(after.ids) < len(before.ids)))
		if err2 == nil && known2 {
			for _, t := range again {
				if _, in := after.ids[t.ID()]; !in {
					e.Violationf("C14.known-flag", "known-but-not-pooled", "a submission right after one that filled the pool answered known=true for transaction %v, which the pool does not hold (pool %d -> %d transactions)", t.ID(), len(before.ids), len(after.ids))
				}
			}
		}
		if len(after.ids) < len(before.ids) {
			e.Probe("eviction_between_back_to_back_submissions")
		}
		e.Fault("back-to-back-submissions-on-a-full-pool")
	}
}

func runC14(e *sim.Env) {
	if e.Chance(1, 12) {
		runC14Full(e)
		return
	}
	now := time.Now()
	regimeOpt := []string{"overlap", "v2", "v1"}[e.Pick(3, 3, 1)]
	net := gen.NewNet(e, now, gen.NetOpts{MaxHeight: 60, Regime: regimeOpt, AllowLo: 2, AllowHi: 6})
	tree := gen.NewTree(net)
	s := newChainSUT(e, net, simdisk.New())
	bo := gen.BlockOpts{Mix: gen.FullMix, MaxTx: 3, OrderSafe: true, Now: now, Strict: genStrict, Miner: net.Actors[0].Addr}
	tip := buildChain(e, "C14", s, tree, e.Range(int(net.Network.MaturityDelay)+1, int(net.Network.MaturityDelay)+10), bo)
	e.Shape("net", net.Regime, regime(net, tip.Height))

	// pooled: what the harness believes it got accepted, per builder
	tb := gen.NewTxBuilder(e, tip.L)
	tb.OrderSafe, tb.UsedEnds, tb.Strict = true, tree.UsedEnds, genStrict
	var unknownIDs []types.TransactionID
	for i := 0; i < 3; i++ {
		var id types.TransactionID
		copy(id[:], e.Bytes(32))
		unknownIDs = append(unknownIDs, id)
	}

	lookups := func(label string) {
		p := snapPool(e, "C14", s.cm)
		var ids []types.TransactionID
		for id := range p.ids {
			ids = append(ids, id)
		}
		sort.Slice(ids, func(i, j int) bool { return bytes.Compare(ids[i][:], ids[j][:]) < 0 })
		ids = append(ids, unknownIDs...)
		for _, id := range ids {
			kind := p.ids[id]
			var t1 types.Transaction
			var ok1 bool
			e.Guard("C14.lookup-panic", "PoolTransaction("+kindOr(kind)+" id)", func() { t1, ok1 = s.cm.PoolTransaction(id) })
			var t2 types.V2Transaction
			var ok2 bool
			e.Guard("C14.lookup-panic", "V2PoolTransaction("+kindOr(kind)+" id)", func() { t2, ok2 = s.cm.V2PoolTransaction(id) })
			switch {
			case kind == "v1" && (!ok1 || t1.ID() != id):
				e.Violationf("C14.lookup", "v1-lookup", "%s: PoolTransaction(%v) = (id %v, %v) for a pooled v1 transaction", label, id, t1.ID(), ok1)
			case kind != "v1" && ok1:
				e.Violationf("C14.lookup", "v1-lookup-wrong:"+kindOr(kind), "%s: PoolTransaction(%v) reports a %s id as a pooled v1 transaction (returned id %v)", label, id, kindOr(kind), t1.ID())
			case kind == "v2" && (!ok2 || t2.ID() != id):
				e.Violationf("C14.lookup", "v2-lookup", "%s: V2PoolTransaction(%v) = (id %v, %v) for a pooled v2 transaction", label, id, t2.ID(), ok2)
			case kind != "v2" && ok2:
				e.Violationf("C14.lookup", "v2-lookup-wrong:"+kindOr(kind), "%s: V2PoolTransaction(%v) reports a %s id as a pooled v2 transaction (returned id %v)", label, id, kindOr(kind), t2.ID())
			}
			if ok2 {
				// mutating a returned value must not affect the pool
				scribbleV2([]types.V2Transaction{t2})
			}
		}
		// the query the syncer uses to complete block outlines: the
		// transactions whose Merkle leaf hashes are asked for, as copies
		if len(ids) > len(unknownIDs) {
			var hashes []types.Hash256
			want := map[types.TransactionID]bool{}
			for i := range p.v1 {
				if e.Chance(1, 2) {
					hashes = append(hashes, p.v1[i].MerkleLeafHash())
					want[p.v1[i].ID()] = true
				}
			}
			for i := range p.v2 {
				if e.Chance(1, 2) {
					hashes = append(hashes, p.v2[i].MerkleLeafHash())
					want[p.v2[i].ID()] = true
				}
			}
			hashes = append(hashes, types.Hash256{0xEE})
			var g1 []types.Transaction
			var g2 []types.V2Transaction
			e.Guard("C14.lookup-panic", "TransactionsForPartialBlock", func() { g1, g2 = s.cm.TransactionsForPartialBlock(hashes) })
			got := map[types.TransactionID]bool{}
			for _, t := range g1 {
				got[t.ID()] = true
			}
			for _, t := range g2 {
				got[t.ID()] = true
			}
			for id := range want {
				if !got[id] {
					e.Violationf("C14.lookup", "partial-block-missing", "%s: TransactionsForPartialBlock did not return pooled transaction %v whose leaf hash was asked for", label, id)
				}
			}
			for id := range got {
				if !want[id] {
					e.Violationf("C14.lookup", "partial-block-extra", "%s: TransactionsForPartialBlock returned transaction %v which was not asked for", label, id)
				}
			}
			scribbleV2(g2)
			// (only v2 values are promised to be deep copies; v1 transactions are
			// shared by design and left alone)
			for i, j := 0, len(g1)-1; i < j; i, j = i+1, j-1 {
				g1[i], g1[j] = g1[j], g1[i]
			}
			e.Probe("partial_block_query")
		}
		// mutate / reorder the returned lists
		for i, j := 0, len(p.v1)-1; i < j; i, j = i+1, j-1 {
			p.v1[i], p.v1[j] = p.v1[j], p.v1[i]
		}
		for i, j := 0, len(p.v2)-1; i < j; i, j = i+1, j-1 {
			p.v2[i], p.v2[j] = p.v2[j], p.v2[i]
		}
		scribbleV2(p.v2)
		if q := snapPool(e, "C14", s.cm); q.hash != p.hash {
			e.Violationf("C14.aliasing", "returned-value-aliases-pool", "%s: mutating / reordering values returned by pool queries changed the pool", label)
		}
	}

	// predicted is what the pool has to hold after a block when no pool
	// function has been called since (set by the block step below)
	var predicted *poolSnap
	var replayable map[types.TransactionID]bool
	var predictedBasis types.ChainIndex
	steps := e.Range(6, 24)
	for i := 0; i < steps; i++ {
		e.Step()
		stale := predicted != nil
		var before poolSnap
		if stale {
			// the previous step was a block and nothing has asked the pool
			// since: this submission is the call that revalidates it
			before, predicted = *predicted, nil
			e.Probe("submission_is_first_pool_call_after_block")
		} else {
			before = snapPool(e, "C14", s.cm)
		}
		// the builder always starts from what the pool really holds
		tb = gen.NewTxBuilder(e, tip.L)
		tb.OrderSafe, tb.UsedEnds, tb.Strict = true, tree.UsedEnds, genStrict
		if stale {
			tb.Avoid(before.v1, before.v2)
		} else {
			tb.Adopt(before.v1, before.v2)
		}
		useV2 := tb.V2OK() && (!tb.V1OK() || e.Chance(2, 3))
		// build a set of 1-4 fresh transactions (later ones may depend on earlier ones)
		n1, n2 := len(tb.Txns), len(tb.V2Txns)
		want := e.Range(1, 4)
		mix := gen.FullMix
		if useV2 {
			mix.Pay, mix.SF, mix.FCForm, mix.FCRevise, mix.FCProof, mix.Arb, mix.Foundation = 0, 0, 0, 0, 0, 0, 0
		} else {
			mix = gen.TxMix{Pay: 6, SF: 2, FCForm: 2, FCRevise: 2, FCProof: 1, Arb: 1, Foundation: 1}
		}
		for k := 0; k < want*2 && (len(tb.Txns)-n1)+(len(tb.V2Txns)-n2) < want; k++ {
			tb.Draw(mix)
		}
		fresh1 := append([]types.Transaction(nil), tb.Txns[n1:]...)
		fresh2 := make([]types.V2Transaction, 0, len(tb.V2Txns)-n2)
		for _, t := range tb.V2Txns[n2:] {
			fresh2 = append(fresh2, t.DeepCopy())
		}
		mode := e.Pick(5, 2, 2, 2, 1)
		if stale {
			// sets without pooled members only: fresh, or conflicting with the pool
			mode = []int{0, 2}[e.Pick(1, 3)]
		}
		modeName := []string{"fresh", "partly-known", "conflict", "invalid", "all-known"}[mode]
		var set1 []types.Transaction
		var set2 []types.V2Transaction
		expectErr := false
		pos := 0
		if useV2 {
			pick := func(int) bool { return false }
			switch mode {
			case 1:
				sel := make([]bool, len(before.v2))
				for i := range sel {
					sel[i] = e.Chance(1, 2)
				}
				pick = func(i int) bool { return sel[i] }
			case 4:
				pick = func(int) bool { return true }
				fresh2 = nil
			}
			parents := poolSubsetV2(before.v2, pick, fresh2)
			if len(parents) > 0 {
				e.Probe("set_with_pooled_parents")
			}
			set2 = append(parents, fresh2...)
			if mode == 1 && len(before.v2) > 0 && len(fresh2) > 0 && e.Chance(1, 2) {
				// known transactions need not come first: an already pooled
				// transaction (with its pooled ancestors) after the fresh ones
				j := e.Intn(len(before.v2))
				have := map[types.TransactionID]bool{}
				for _, t := range set2 {
					have[t.ID()] = true
				}
				for _, t := range poolSubsetV2(before.v2, func(i int) bool { return i == j }, nil) {
					if !have[t.ID()] {
						set2 = append(set2, t)
						e.Probes["set_with_known_after_fresh"] = 1
					}
				}
			}
			switch mode {
			case 2:
				if len(before.v2) > 0 {
					if c, ok := conflictV2(tb, before.v2[e.Intn(len(before.v2))]); ok {
						pos = e.Intn(len(set2) + 1)
						set2 = append(set2[:pos:pos], append([]types.V2Transaction{c}, set2[pos:]...)...)
						expectErr = true
					}
				}
			case 3:
				if len(set2) > 0 {
					pos = e.Intn(len(set2))
					if len(set2[pos].SiacoinInputs) > 0 && len(set2[pos].SiacoinInputs[0].SatisfiedPolicy.Signatures) > 0 {
						set2[pos].SiacoinInputs[0].SatisfiedPolicy.Signatures[0][3] ^= 0x40
						expectErr = true
					}
				}
			}
		} else {
			set1 = fresh1
			switch mode {
			case 1, 4:
				if mode == 4 {
					set1 = nil
				}
				for _, t := range before.v1 {
					if e.Chance(1, 2) || mode == 4 {
						set1 = append([]types.Transaction{t}, set1...)
					}
				}
			case 2:
				if len(before.v1) > 0 {
					if c, ok := conflictV1(tb, net, tip.L, before.v1[e.Intn(len(before.v1))]); ok {
						pos = e.Intn(len(set1) + 1)
						set1 = append(set1[:pos:pos], append([]types.Transaction{c}, set1[pos:]...)...)
						expectErr = true
					}
				}
			case 3:
				if len(set1) > 0 {
					pos = e.Intn(len(set1))
					if len(set1[pos].Signatures) > 0 {
						t := set1[pos]
						t.Signatures = append([]types.TransactionSignature(nil), t.Signatures...)
						sig := append([]byte(nil), t.Signatures[0].Signature...)
						sig[5] ^= 0x40
						t.Signatures[0].Signature = sig
						set1[pos] = t
						expectErr = true
					}
				}
			}
		}
		if len(set1)+len(set2) == 0 {
			continue
		}
		setIDs := map[types.TransactionID]bool{}
		allKnown := true
		for _, t := range set1 {
			setIDs[t.ID()] = true
			if _, ok := before.ids[t.ID()]; !ok {
				allKnown = false
			}
		}
		for _, t := range set2 {
			setIDs[t.ID()] = true
			if _, ok := before.ids[t.ID()]; !ok {
				allKnown = false
			}
		}
		var known bool
		var err error
		var callerBefore []byte
		if useV2 {
			callerBefore = encV2Set(set2)
			basis := tip.Index()
			e.Guard("C14.panic", "AddV2PoolTransactions", func() { known, err = s.cm.AddV2PoolTransactions(basis, set2) })
			if !bytes.Equal(callerBefore, encV2Set(set2)) {
				e.Violationf("C14.caller-memory", "caller-modified", "AddV2PoolTransactions modified the caller's transactions (mode %s)", modeName)
			}
		} else {
			callerBefore = encV1Set(set1)
			e.Guard("C14.panic", "AddPoolTransactions", func() { known, err = s.cm.AddPoolTransactions(set1) })
		}
		after := snapPool(e, "C14", s.cm)
		e.Logf("Add(v2=%v, mode=%s pos=%d, %d txns, first-call-after-block=%v) -> known=%v err=%v pool %d->%d", useV2, modeName, pos, len(setIDs), stale, known, err != nil, len(before.ids), len(after.ids))
		if stale {
			// the prediction (pool before the block minus what the block
			// confirmed) is off when the new height made a pooled transaction
			// invalid. Such a transaction is also refused when submitted again;
			// then this step is not judged. One that is accepted again was valid
			// all along and its disappearance is judged below.
			var gone1 []types.Transaction
			var gone2 []types.V2Transaction
			for _, t := range before.v1 {
				if _, ok := after.ids[t.ID()]; !ok {
					gone1 = append(gone1, t)
				}
			}
			for _, t := range before.v2 {
				if _, ok := after.ids[t.ID()]; !ok {
					gone2 = append(gone2, t.DeepCopy())
				}
			}
			if len(gone1)+len(gone2) > 0 {
				var err1, err2 error
				basis := predictedBasis // their proofs are as of the block's parent
				e.Guard("C14.panic", "AddPoolTransactions(resubmit)", func() {
					if len(gone1) > 0 {
						_, err1 = s.cm.AddPoolTransactions(gone1)
					}
					if len(gone2) > 0 {
						_, err2 = s.cm.AddV2PoolTransactions(basis, gone2)
					}
				})
				if (len(gone1) > 0 && err1 != nil) || (len(gone2) > 0 && err2 != nil) {
					e.Probe("pooled_transaction_expired_with_block")
					for _, t := range gone1 {
						e.Logf("  gone v1 %v: %d sc in, %d sf in, %d fc, %d rev, %d proofs", t.ID(), len(t.SiacoinInputs), len(t.SiafundInputs), len(t.FileContracts), len(t.FileContractRevisions), len(t.StorageProofs))
					}
					for _, t := range gone2 {
						e.Logf("  gone v2 %v: %d sc in, %d sf in, %d fc, %d rev, %d res", t.ID(), len(t.SiacoinInputs), len(t.SiafundInputs), len(t.FileContracts), len(t.FileContractRevisions), len(t.FileContractResolutions))
					}
					e.Logf("  %d pooled transactions stopped being valid with the block (%v / %v): step not judged", len(gone1)+len(gone2), err1, err2)
					lookups("after a submission that revalidated the pool")
					continue
				}
			}
		}
		e.Shape(modeName, fmt.Sprint(useV2), fmt.Sprint(err != nil), fmt.Sprint(known))
		if mode != 0 {
			e.Nontrivial = true
			e.Fault("set-" + modeName)
		}

		// all-or-none on the set of ids
		added, missing := 0, 0
		for id := range setIDs {
			_, was := before.ids[id]
			_, is := after.ids[id]
			if !was && is {
				added++
			}
			if !was && !is {
				missing++
			}
		}
		for id, k := range before.ids {
			if _, ok := after.ids[id]; !ok {
				e.Violationf("C14.all-or-none", "pooled-dropped", "a submission (mode %s) removed the pooled %s transaction %v", modeName, k, id)
			}
		}
		for id := range after.ids {
			if _, was := before.ids[id]; !was && !setIDs[id] {
				if stale && replayable[id] {
					// confirmed by the block and still valid afterwards
					e.Probe("confirmed_inputless_transaction_stays_pooled")
					continue
				}
				desc := ""
				for _, t := range after.v2 {
					if t.ID() == id {
						b, _ := json.Marshal(t)
						desc = string(b)
					}
				}
				e.Violationf("C14.all-or-none", "foreign-added", "a submission added transaction %v that was not part of the set %s", id, desc)
			}
		}
		switch {
		case added > 0 && missing > 0:
			e.Violationf("C14.all-or-none", fmt.Sprintf("partial:%s:err=%v", modeName, err != nil), "submitting a %s set (position %d) added %d of its %d unknown transactions and returned err=%v; pool before %s after %s", modeName, pos, added, added+missing, err, idSetString(before.ids), idSetString(after.ids))
		case err != nil && added > 0:
			e.Violationf("C14.all-or-none", "added-on-error:"+modeName, "submission failed (%v) but %d transactions were added", err, added)
		case err == nil && missing > 0:
			e.Violationf("C14.all-or-none", "none-on-success:"+modeName, "submission succeeded but %d unknown transactions of the set are not pooled", missing)
		}
		if expectErr && err == nil {
			e.Violationf("C14.invalid-rejected", "no-error:"+modeName, "a %s set (position %d) was accepted", modeName, pos)
		}
		if !expectErr && err != nil && (mode == 0 || mode == 1 || mode == 4) {
			var desc []string
			for _, t := range set2 {
				d := t.ID().String()[:8] + "("
				for _, in := range t.SiacoinInputs {
					d += fmt.Sprintf("in %s leaf=%d;", in.Parent.ID.String()[:8], in.Parent.StateElement.LeafIndex)
				}
				tid := t.ID()
				for i := range t.SiacoinOutputs {
					d += fmt.Sprintf("out %s;", t.SiacoinOutputID(tid, i).String()[:8])
				}
				desc = append(desc, d+")")
			}
			e.Violationf("C14.valid-accepted", "error:"+modeName, "a valid %s set was rejected: %v; set=%v kinds=%v", modeName, err, desc, tb.Kinds)
		}
		if err == nil && known != allKnown {
			e.Violationf("C14.known-flag", fmt.Sprintf("known=%v:allKnown=%v", known, allKnown), "known=%v although every-transaction-already-pooled=%v (mode %s)", known, allKnown, modeName)
		}
		if err != nil && known {
			e.Violationf("C14.known-flag", "known-with-error", "known=true together with error %v", err)
		}
		// later mutation of caller memory must not reach the pool
		if useV2 {
			scribbleV2(set2)
			if q := snapPool(e, "C14", s.cm); q.hash != after.hash {
				e.Violationf("C14.aliasing", "pool-aliases-caller", "mutating the caller's v2 transactions after submission changed the pool")
			}
		}
		// keep the builder in step with the pool
		tb = gen.NewTxBuilder(e, tip.L)
		tb.OrderSafe, tb.UsedEnds, tb.Strict = true, tree.UsedEnds, genStrict
		tb.Adopt(after.v1, after.v2)
		lookups("after " + modeName + " submission")
		if e.Chance(1, 6) {
			// a block confirms the pool, or only its front part (any prefix of
			// the reported pool is a valid block body); continue on the new tip
			bt, bv := after.v1, after.v2
			total := len(after.v1) + len(after.v2)
			partial := total >= 2 && e.Chance(1, 2)
			if partial {
				k := e.Range(1, total-1)
				if k <= len(after.v1) {
					bt, bv = after.v1[:k], nil
				} else {
					bv = after.v2[:k-len(after.v1)]
				}
				e.Probe("block_confirms_prefix_of_pool")
			}
			predictedBasis = tip.Index()
			blk := gen.AssembleBlock(e, net, tip.L.State, tree.Timestamp(e, tip, now, false), types.VoidAddress, bt, bv, true)
			n, aerr := tree.AddForeign(tip, blk)
			if aerr != nil {
				e.Violationf("C14.pool-minable", "block-invalid", "a block assembled from the reported pool (first %d of %d) is invalid: %v", len(bt)+len(bv), total, aerr)
			}
			if err := s.cm.AddBlocks([]types.Block{blk}); err != nil {
				e.Violationf("C14.pool-minable", "block-rejected", "a block assembled from the reported pool (first %d of %d) was rejected: %v", len(bt)+len(bv), total, err)
			}
			tip = n
			tb = gen.NewTxBuilder(e, tip.L)
			tb.OrderSafe, tb.UsedEnds, tb.Strict = true, tree.UsedEnds, genStrict
			e.Shape("block", fmt.Sprint(partial))
			if !partial && len(bt)+len(bv) > 0 && e.Chance(1, 3) {
				// the block is reorganised away again (empty blocks on its
				// parent); what it had confirmed is then submitted once more:
				// whatever the answer, "known" means pooled
				// (2-12 of them: the more leaves the accumulator gains, the more of
				// the proofs the reverted transactions carry go stale)
				parent := n.Parent
				x := parent
				var fork []*gen.Node
				for k, kk := 0, e.Range(2, 12); k < kk; k++ {
					x = tree.Extend(e, x, gen.BlockOpts{Now: now, Miner: types.VoidAddress})
					fork = append(fork, x)
				}
				if e.Chance(1, 2) {
					// ... up to the next power of two of the accumulator's size, where
					// every tree of the forest merges and every older proof grows
					pow := uint64(1)
					for pow <= parent.L.State.Elements.NumLeaves {
						pow *= 2
					}
					for k := 0; k < 80 && x.L.State.Elements.NumLeaves < pow; k++ {
						x = tree.Extend(e, x, gen.BlockOpts{Now: now, Miner: types.VoidAddress})
						fork = append(fork, x)
					}
				}
				if err := s.cm.AddBlocks(blocksOf(fork)); err != nil {
					e.Violationf("C14.valid-accepted", "reorg", "two empty blocks on the parent of the tip were rejected: %v", err)
				}
				if s.cm.Tip() == x.Index() {
					tip = x
					tb = gen.NewTxBuilder(e, tip.L)
					tb.OrderSafe, tb.UsedEnds, tb.Strict = true, tree.UsedEnds, genStrict
					// one at a time, parents first (some may have expired with the
					// new height: those are refused and not judged)
					known1, err1 := make([]bool, len(bt)), make([]error, len(bt))
					known2, err2 := make([]bool, len(bv)), make([]error, len(bv))
					basis := parent.Index()
					e.Guard("C14.panic", "resubmission after a reorg", func() {
						for i := range bt {
							known1[i], err1[i] = s.cm.AddPoolTransactions([]types.Transaction{bt[i]})
						}
						for i := range bv {
							known2[i], err2[i] = s.cm.AddV2PoolTransactions(basis, []types.V2Transaction{bv[i].DeepCopy()})
						}
					})
					now2 := snapPool(e, "C14", s.cm)
					e.Logf("block reorganised away (%d blocks instead); its %d+%d transactions submitted again one by one -> v1 known=%v, v2 known=%v; pool %d", len(fork), len(bt), len(bv), known1, known2, len(now2.ids))
					for i, t := range bt {
						if _, in := now2.ids[t.ID()]; !in && err1[i] == nil {
							e.Violationf("C14.known-flag", fmt.Sprintf("after-reorg:v1:known=%v", known1[i]), "after the block that had confirmed it was reorganised away, v1 transaction %v was submitted again: known=%v, no error, yet the pool does not hold it", t.ID(), known1[i])
						}
					}
					for i, t := range bv {
						if _, in := now2.ids[t.ID()]; !in && err2[i] == nil {
							e.Violationf("C14.known-flag", fmt.Sprintf("after-reorg:v2:known=%v", known2[i]), "after the block that had confirmed it was reorganised away, v2 transaction %v was submitted again: known=%v, no error, yet the pool does not hold it", t.ID(), known2[i])
						}
					}
					e.Fault("confirming-block-reorganised-away")
					e.Nontrivial = true
					lookups("after a reorg")
				}
				continue
			}
			if partial && e.Chance(1, 3) {
				// the first pool call after the block is a lookup by id of a
				// transaction the block left in the pool: if the listing that
				// follows has it, the lookup had to find it too
				var cand []types.TransactionID
				for _, t := range after.v1[len(bt):] {
					cand = append(cand, t.ID())
				}
				for _, t := range after.v2[len(bv):] {
					cand = append(cand, t.ID())
				}
				id := cand[e.Intn(len(cand))]
				var ok1, ok2 bool
				e.Guard("C14.lookup-panic", "PoolTransaction(first call after block)", func() {
					if e.Chance(1, 2) {
						_, ok1 = s.cm.PoolTransaction(id)
						_, ok2 = s.cm.V2PoolTransaction(id)
					} else {
						_, ok2 = s.cm.V2PoolTransaction(id)
						_, ok1 = s.cm.PoolTransaction(id)
					}
				})
				now := snapPool(e, "C14", s.cm)
				if kind, listed := now.ids[id]; listed && !ok1 && !ok2 {
					e.Violationf("C14.lookup", "first-call-after-block", "the first pool call after a block was a lookup of the pooled %s transaction %v: reported absent, yet the pool lists it", kind, id)
				}
				e.Probe("lookup_is_first_pool_call_after_block")
				lookups("after block")
			} else if partial && e.Chance(1, 2) {
				// leave the pool alone: the next submission is the first pool
				// call after the block
				pr := poolSnap{ids: map[types.TransactionID]string{}}
				for _, t := range after.v1[len(bt):] {
					pr.v1 = append(pr.v1, t)
					pr.ids[t.ID()] = "v1"
				}
				for _, t := range after.v2[len(bv):] {
					pr.v2 = append(pr.v2, t)
					pr.ids[t.ID()] = "v2"
				}
				predicted = &pr
				// a transaction without inputs (attestations only) stays valid
				// after it has been confirmed, and the pool may keep it
				replayable = map[types.TransactionID]bool{}
				for _, t := range bv {
					if len(t.SiacoinInputs)+len(t.SiafundInputs)+len(t.FileContractRevisions)+len(t.FileContractResolutions) == 0 {
						replayable[t.ID()] = true
					}
				}
			} else {
				lookups("after block")
			}
		}
	}
}

func kindOr(k string) string {
	if k == "" {
		return "unknown"
	}
	return k
}

func init() {
	register(&Prop{
		ID: "C14", Run: runC14, Quick: 1200, Thorough: 30000, Level: "exploration",
		Rule:        "one run = drawn network and chain, then 6-24 pool submissions (v1 or v2 sets of 1-4 possibly dependent transactions: fresh / partly known / conflicting with the pool at a drawn position / invalid at a drawn position / all known) with lookups of every pooled v1 id, v2 id and unknown ids on both lookup functions, TransactionsForPartialBlock for a drawn subset of leaf hashes, agreement of listing and lookup, mutation and reordering of returned values and of the caller's own transactions after each call, and an occasional block assembled from the whole reported pool or a drawn prefix of it, after which the block may be reorganised away again and its transactions submitted once more (known means pooled), or the next call is a listing, a lookup by id of a transaction the block left pooled, or directly the next submission, so that the submission itself is the call that revalidates the pool; 1 run in 12 instead fills the pool to its weight limit with ~0.9-block-weight transactions and then submits back to back (no query between) a fresh heavy transaction and an already pooled one: known=true means pooled afterwards; distinct = abstract trace of (mode, version, error, known); non-trivial = at least one non-fresh set",
		Real:        []string{"chain.Manager (pool)", "chain.DBStore"},
		Stub:        []string{"disk: simdisk.DB"},
		Assumptions: []string{"pool contents are observed through PoolTransactions / V2PoolTransactions before and after each call"},
	})
}
