package props

import (
	"bytes"
	"encoding/json"
	"fmt"
	"sort"
	"time"

	"go.sia.tech/core/types"
	"go.sia.tech/coreutils/wallet"

	"verif/gen"
	"verif/sim"
	"verif/simdisk"
)

func newWallet(e *sim.Env, inv string, a gen.Actor, s *chainSUT, st *walletStore, sy *recSyncer, opts ...wallet.Option) *wallet.SingleAddressWallet {
	var w *wallet.SingleAddressWallet
	var err error
	e.Guard(inv+".panic", "NewSingleAddressWallet", func() { w, err = wallet.NewSingleAddressWallet(a.SK, s.cm, st, sy, opts...) })
	if err != nil {
		e.Violationf(inv+".wallet-open", "error", "NewSingleAddressWallet failed: %v", err)
	}
	if w.Address() != a.Addr {
		e.Infraf("wallet address differs from the actor's")
	}
	return w
}

func eventsJSON(evs []wallet.Event) []string {
	out := make([]string, len(evs))
	for i, ev := range evs {
		b, err := json.Marshal(ev)
		if err != nil {
			out[i] = "marshal error: " + err.Error()
		} else {
			out[i] = string(b)
		}
	}
	sort.Strings(out)
	return out
}

// syncWallet polls the update stream in chunks of at most max until the
// wallet reaches the tip or polls is exhausted.
func syncWallet(e *sim.Env, inv string, s *chainSUT, w *wallet.SingleAddressWallet, st *walletStore, polls int, maxOf func() int) {
	for i := 0; i < polls && st.tip != s.cm.Tip(); i++ {
		max := maxOf()
		rus, aus, err := s.cm.UpdatesSince(st.tip, max)
		if err != nil {
			e.Violationf(inv+".updates-error", "error", "UpdatesSince(%v,%d): %v", st.tip, max, err)
		}
		if len(rus) > 0 && len(aus) == 0 {
			e.Probe("chunk_ends_on_revert")
		}
		var serr error
		e.Guard(inv+".panic", "UpdateChainState", func() { serr = st.sync(w, rus, aus) })
		if serr != nil {
			e.Violationf(inv+".update-error", "error", "UpdateChainState failed: %v", serr)
		}
	}
}

// auditWallet checks a caught-up wallet against the reference ledger.
func auditWallet(e *sim.Env, inv string, s *chainSUT, tip *gen.Node, a gen.Actor, w *wallet.SingleAddressWallet, st *walletStore) {
	if st.tip != tip.Index() {
		e.Infraf("auditWallet: wallet not caught up")
	}
	// unspent outputs == ledger elements paying the address
	want := map[types.SiacoinOutputID]types.SiacoinElement{}
	var total types.Currency
	for id, el := range tip.L.SC {
		if el.SiacoinOutput.Address == a.Addr {
			want[id] = el
			total = total.Add(el.SiacoinOutput.Value)
		}
	}
	if len(st.utxos) != len(want) {
		e.Violationf(inv+".utxos", "count", "wallet stores %d unspent outputs, %d outputs pay its address on the best chain to %s", len(st.utxos), len(want), tip.Describe())
	}
	for id, el := range want {
		got, ok := st.utxos[id]
		if !ok {
			e.Violationf(inv+".utxos", "missing", "output %v (%v) pays the wallet on the best chain but is not stored", id, el.SiacoinOutput.Value)
		}
		if got.SiacoinOutput != el.SiacoinOutput || got.MaturityHeight != el.MaturityHeight {
			e.Violationf(inv+".utxos", "value-or-maturity", "output %v stored as %v maturing at %d, the ledger says %v at %d", id, got.SiacoinOutput.Value, got.MaturityHeight, el.SiacoinOutput.Value, el.MaturityHeight)
		}
		if !bytes.Equal(gen.Enc(got), gen.Enc(el)) {
			e.Violationf(inv+".utxo-proofs", "proof", "output %v: stored leaf index %d / %d proof hashes, the ledger has %d / %d", id, got.StateElement.LeafIndex, len(got.StateElement.MerkleProof), el.StateElement.LeafIndex, len(el.StateElement.MerkleProof))
		}
	}
	var v2 types.V2Transaction
	for _, el := range st.sortedUTXOs() {
		v2.SiacoinInputs = append(v2.SiacoinInputs, types.V2SiacoinInput{Parent: el})
	}
	if err := tip.L.State.Elements.ValidateTransactionElements(v2); err != nil {
		e.Violationf(inv+".utxo-proofs", "invalid", "a stored proof does not verify at the tip: %v", err)
	}
	// events: nothing left over from reverted blocks, conservation
	var in, out types.Currency
	seen := map[types.Hash256]bool{}
	for _, ev := range st.events {
		n, ok := s.cm.BestIndex(ev.Index.Height)
		if !ok || n != ev.Index {
			e.Violationf(inv+".events", "stale-event", "event %v (%s) is indexed at %v which is not on the best chain", ev.ID, ev.Type, ev.Index)
		}
		if seen[ev.ID] {
			e.Violationf(inv+".events", "duplicate-event", "event %v (%s) is stored twice", ev.ID, ev.Type)
		}
		seen[ev.ID] = true
		in = in.Add(ev.SiacoinInflow())
		out = out.Add(ev.SiacoinOutflow())
	}
	if in.Cmp(out) < 0 || !in.Sub(out).Equals(total) {
		// which outputs are not explained by any event?
		explained := map[types.SiacoinOutputID]string{}
		for _, ev := range st.events {
			switch d := ev.Data.(type) {
			case wallet.EventPayout:
				explained[d.SiacoinElement.ID] = ev.Type
			case wallet.EventV1ContractResolution:
				explained[d.SiacoinElement.ID] = ev.Type
			case wallet.EventV2ContractResolution:
				explained[d.SiacoinElement.ID] = ev.Type
			case wallet.EventV1Transaction:
				for i, o := range d.Transaction.SiacoinOutputs {
					if o.Address == a.Addr {
						explained[d.Transaction.SiacoinOutputID(i)] = ev.Type
					}
				}
			case wallet.EventV2Transaction:
				txn := types.V2Transaction(d)
				id := txn.ID()
				for i, o := range txn.SiacoinOutputs {
					if o.Address == a.Addr {
						explained[txn.SiacoinOutputID(id, i)] = ev.Type
					}
				}
			}
		}
		var unexplained []string
		for id, el := range want {
			if _, ok := explained[id]; !ok {
				unexplained = append(unexplained, fmt.Sprintf("%s=%v(%s)", id.String()[:8], el.SiacoinOutput.Value, originOf(tip, id)))
			}
		}
		sort.Strings(unexplained)
		sig := "events-vs-utxos"
		if len(unexplained) > 0 {
			sig = "output-without-event:" + originOf(tip, firstUnexplained(want, explained))
		}
		// first block whose events do not add up to the wallet's ledger delta
		blockDiff := ""
		for _, n := range tip.PathFromGenesis() {
			var before, after, evIn, evOut types.Currency
			if n.Parent != nil {
				for _, el := range n.Parent.L.SC {
					if el.SiacoinOutput.Address == a.Addr {
						before = before.Add(el.SiacoinOutput.Value)
					}
				}
			}
			for _, el := range n.L.SC {
				if el.SiacoinOutput.Address == a.Addr {
					after = after.Add(el.SiacoinOutput.Value)
				}
			}
			for _, ev := range st.events {
				if ev.Index == n.Index() {
					evIn = evIn.Add(ev.SiacoinInflow())
					evOut = evOut.Add(ev.SiacoinOutflow())
				}
			}
			if !after.Add(evOut).Equals(before.Add(evIn)) {
				blockDiff = fmt.Sprintf("first at block %s kinds=%v: ledger %v -> %v, events +%v -%v", n.Describe(), n.Kinds, before, after, evIn, evOut)
				break
			}
		}
		unexplained = append(unexplained, blockDiff)
		var evs []string
		for _, ev := range st.events {
			evs = append(evs, fmt.Sprintf("h%d %s %s +%v -%v", ev.Index.Height, ev.Type, ev.ID.String()[:8], ev.SiacoinInflow(), ev.SiacoinOutflow()))
		}
		e.Violationf(inv+".conservation", sig, "event inflows %v - outflows %v != sum of unspent outputs %v (%d events, %d outputs); outputs no event accounts for: %v; events: %v", in, out, total, len(st.events), len(want), unexplained, evs)
	}
	bal, err := w.Balance()
	if err != nil {
		e.Violationf(inv+".balance", "error", "Balance failed: %v", err)
	}
	if !bal.Confirmed.Add(bal.Immature).Equals(total) {
		e.Violationf(inv+".balance", "total", "Balance confirmed %v + immature %v != sum of unspent outputs %v", bal.Confirmed, bal.Immature, total)
	}
}

func runC06(e *sim.Env) {
	now := time.Now()
	net := gen.NewNet(e, now, gen.NetOpts{MaxHeight: 90})
	tree := gen.NewTree(net)
	s := newChainSUT(e, net, simdisk.New())
	me := net.Actors[0]
	e.Shape("net", net.Regime)
	tree.Grow(e, gen.GrowOpts{
		Blocks:    e.Range(6, 34),
		MinerPool: []types.Address{me.Addr, types.VoidAddress, net.Actors[1].Addr},
		LongFork:  true,
		Block:     gen.BlockOpts{Mix: gen.FullMix, MaxTx: e.Range(1, 6), OrderSafe: true, Now: now, Strict: genStrict, Payee: &me.Addr},
	})
	plan := makePlan(e, tree)

	st := newWalletStore()
	w := newWallet(e, "C06", me, s, st, &recSyncer{})
	e.OnCleanup(func() { w.Close() })
	twin := &linearTwin{net: net}
	tip := tree.Genesis
	maxOf := func() int { return e.Range(1, 8) }
	check := func() {
		auditWallet(e, "C06", s, tip, me, w, st)
		// differential: a wallet that saw the best chain exactly once
		tw := twin.at(e, tree, tip)
		lst := newWalletStore()
		lw := newWallet(e, "C06", me, tw, lst, &recSyncer{})
		defer lw.Close()
		for lst.tip != tip.Index() {
			rus, aus, err := tw.cm.UpdatesSince(lst.tip, 1000)
			if err != nil || len(rus) > 0 || len(aus) == 0 {
				e.Violationf("C06.linear-wallet", "stream", "linear stream broke: %v (%d reverts, %d applies)", err, len(rus), len(aus))
			}
			if err := lst.sync(lw, rus, aus); err != nil {
				e.Violationf("C06.linear-wallet", "update-error", "linear wallet failed: %v", err)
			}
		}
		got, want := eventsJSON(st.events), eventsJSON(lst.events)
		if len(got) != len(want) {
			e.Violationf("C06.events-vs-linear", "count", "wallet has %d events, a wallet that saw only the best chain has %d", len(got), len(want))
		}
		for i := range got {
			if got[i] != want[i] {
				e.Violationf("C06.events-vs-linear", "content", "event differs from the linear wallet's:\n %s\n %s", got[i], want[i])
			}
		}
		e.Probe("wallet_caught_up_checked")
	}
	for _, batch := range plan {
		if len(batch) == 0 {
			continue
		}
		e.Step()
		e.Guard("C06.panic", "AddBlocks", func() { s.cm.AddBlocks(blocksOf(batch)) })
		newTip := auditBestChain(e, "C06", s, tree)
		if newTip != tip {
			fork := gen.CommonAncestor(tip, newTip)
			if d := int(tip.Height - fork.Height); d > 0 {
				e.Nontrivial = true
				e.Shape("reorg", bucket(d))
			}
		}
		tip = newTip
		e.Logf("AddBlocks(%d, last %s) tip %s wallet at %v", len(batch), batch[len(batch)-1].Describe(), tip.Describe(), st.tip)
		syncWallet(e, "C06", s, w, st, e.Range(0, 4), maxOf)
		e.Shape("sync", fmt.Sprint(st.tip == tip.Index()))
		if st.tip == tip.Index() {
			check()
		}
	}
	syncWallet(e, "C06", s, w, st, 1000, maxOf)
	if st.tip != tip.Index() {
		e.Violationf("C06.reaches-tip", "stuck", "the wallet stops at %v, the tip is %v", st.tip, tip.Index())
	}
	check()
}

func init() {
	register(&Prop{
		ID: "C06", Run: runC06, Quick: 800, Thorough: 20000, Level: "exploration",
		Rule:        "one run = C02-style history in which the wallet's address is miner, payee, spender, v1/v2 contract party (valid, missed, renewed, expired payouts), siafund claimant and foundation address; the wallet consumes the update stream in chunks of 1-8 at drawn moments (lagging behind, chunks ending on reverts) through a store that records the index the stream left it at; whenever it has caught up: stored outputs == reference-ledger outputs paying the address (value, maturity, leaf index, proof), proofs verify, no event is indexed off the best chain, events == events of a fresh wallet fed the best chain once, inflows - outflows == sum of unspent outputs == Balance; distinct = abstract trace; non-trivial = a reorg reverting blocks",
		Real:        []string{"wallet.SingleAddressWallet (UpdateChainState, appliedEvents, Balance)", "chain.Manager", "chain.DBStore"},
		Stub:        []string{"wallet store: harness walletStore (records the stream's index as tip)", "syncer: recording stub", "disk: simdisk.DB"},
		Assumptions: []string{"the store records as its tip the index the stream left it at (precondition in the property statement)"},
	})
}

func firstUnexplained(want map[types.SiacoinOutputID]types.SiacoinElement, explained map[types.SiacoinOutputID]string) types.SiacoinOutputID {
	var ids []types.SiacoinOutputID
	for id := range want {
		if _, ok := explained[id]; !ok {
			ids = append(ids, id)
		}
	}
	sort.Slice(ids, func(i, j int) bool { return bytes.Compare(ids[i][:], ids[j][:]) < 0 })
	if len(ids) == 0 {
		return types.SiacoinOutputID{}
	}
	return ids[0]
}

// originOf says which kind of block content created a siacoin output.
func originOf(tip *gen.Node, id types.SiacoinOutputID) string {
	for _, n := range tip.PathFromGenesis() {
		b := n.Block
		bid := b.ID()
		for i := range b.MinerPayouts {
			if bid.MinerOutputID(i) == id {
				return "miner-payout"
			}
		}
		if bid.FoundationOutputID() == id {
			return "foundation-subsidy"
		}
		for _, txn := range b.Transactions {
			for i := range txn.SiacoinOutputs {
				if txn.SiacoinOutputID(i) == id {
					return "v1-output"
				}
			}
			for _, in := range txn.SiafundInputs {
				if in.ParentID.ClaimOutputID() == id {
					return "v1-siafund-claim"
				}
			}
			for _, sp := range txn.StorageProofs {
				for i := 0; i < 4; i++ {
					if sp.ParentID.ValidOutputID(i) == id {
						return "v1-valid-proof-output"
					}
				}
			}
		}
		for _, txn := range b.V2Transactions() {
			tid := txn.ID()
			for i := range txn.SiacoinOutputs {
				if txn.SiacoinOutputID(tid, i) == id {
					return "v2-output"
				}
			}
			for _, in := range txn.SiafundInputs {
				if in.Parent.ID.V2ClaimOutputID() == id {
					return "v2-siafund-claim"
				}
			}
			for _, r := range txn.FileContractResolutions {
				if r.Parent.ID.V2RenterOutputID() == id {
					return fmt.Sprintf("v2-renter-output(%T)", r.Resolution)
				}
				if r.Parent.ID.V2HostOutputID() == id {
					return fmt.Sprintf("v2-host-output(%T)", r.Resolution)
				}
			}
		}
		if n.Parent != nil && n.Parent.Valid() {
			for _, fcid := range n.Parent.L.Expiring[n.Height] {
				for i := 0; i < 4; i++ {
					if fcid.MissedOutputID(i) == id {
						return "v1-missed-proof-output"
					}
				}
			}
		}
	}
	return "unknown"
}
