package props

import "testing/synctest"

// synctestWait blocks until every other goroutine of the bubble is durably blocked.
func synctestWait() { synctest.Wait() }
