package props

import (
	"bytes"
	"context"
	"fmt"
	"go.sia.tech/core/consensus"
	"net"
	"sort"
	"sync"
	"sync/atomic"
	"time"

	"go.sia.tech/core/gateway"
	"go.sia.tech/core/types"
	"go.sia.tech/coreutils/syncer"
	"go.uber.org/zap"
	"go.uber.org/zap/zapcore"
	"go.uber.org/zap/zaptest/observer"

	"verif/gen"
	"verif/sim"
	"verif/simdisk"
	"verif/simnet"
)

// banRecord is one PeerStore.Ban call.
type banRecord struct {
	seq    int
	addr   string
	reason string
}

// peerStore implements syncer.PeerStore with deterministic iteration and real bans.
type peerStore struct {
	mu    sync.Mutex
	e     *sim.Env
	peers map[string]syncer.PeerInfo
	bans  []banRecord
	until map[string]time.Time
}

func newPeerStore(e *sim.Env) *peerStore {
	return &peerStore{e: e, peers: map[string]syncer.PeerInfo{}, until: map[string]time.Time{}}
}

func (ps *peerStore) AddPeer(addr string) error {
	ps.mu.Lock()
	defer ps.mu.Unlock()
	if _, ok := ps.peers[addr]; !ok {
		ps.peers[addr] = syncer.PeerInfo{Address: addr, FirstSeen: time.Now()}
	}
	return nil
}

func (ps *peerStore) Peers() ([]syncer.PeerInfo, error) {
	ps.mu.Lock()
	defer ps.mu.Unlock()
	out := make([]syncer.PeerInfo, 0, len(ps.peers))
	for _, p := range ps.peers {
		out = append(out, p)
	}
	sort.Slice(out, func(i, j int) bool { return out[i].Address < out[j].Address })
	return out, nil
}

func (ps *peerStore) PeerInfo(addr string) (syncer.PeerInfo, error) {
	ps.mu.Lock()
	defer ps.mu.Unlock()
	p, ok := ps.peers[addr]
	if !ok {
		return syncer.PeerInfo{}, syncer.ErrPeerNotFound
	}
	return p, nil
}

func (ps *peerStore) UpdatePeerInfo(addr string, fn func(*syncer.PeerInfo)) error {
	ps.mu.Lock()
	defer ps.mu.Unlock()
	p, ok := ps.peers[addr]
	if !ok {
		return syncer.ErrPeerNotFound
	}
	fn(&p)
	ps.peers[addr] = p
	return nil
}

func (ps *peerStore) Ban(addr string, d time.Duration, reason string) error {
	ps.mu.Lock()
	defer ps.mu.Unlock()
	ps.bans = append(ps.bans, banRecord{seq: ps.e.Seq(), addr: addr, reason: reason})
	key := addr
	if h, _, err := net.SplitHostPort(addr); err == nil {
		key = h
	}
	ps.until[key] = time.Now().Add(d)
	return nil
}

func (ps *peerStore) Banned(addr string) (bool, error) {
	ps.mu.Lock()
	defer ps.mu.Unlock()
	host := addr
	if h, _, err := net.SplitHostPort(addr); err == nil {
		host = h
	}
	ip := net.ParseIP(host)
	for key, until := range ps.until {
		if time.Now().After(until) {
			continue
		}
		if key == host {
			return true, nil
		}
		if _, ipnet, err := net.ParseCIDR(key); err == nil && ip != nil && ipnet.Contains(ip) {
			return true, nil
		}
	}
	return false, nil
}

func (ps *peerStore) banList() []banRecord {
	ps.mu.Lock()
	defer ps.mu.Unlock()
	return append([]banRecord(nil), ps.bans...)
}

// netNode is one real node: manager + store + syncer on the simulated network.
type netNode struct {
	name   string
	host   string
	addr   string
	s      *chainSUT
	ps     *peerStore
	sy     *syncer.Syncer
	l      *simnet.Listener
	logs   *observer.ObservedLogs
	runErr chan error
	closed bool
	// cpHeight > 0: the node was started from a checkpoint at that height and
	// has no history below it
	cpHeight uint64
}

// stallingCM is a slow node: every k-th answer to a header request is held
// back for a while after it has been computed (a stalled disk or scheduler
// between computing a response and writing it), so that whatever the node
// does in the meantime - finding and announcing a block, say - overtakes it.
type stallingCM struct {
	syncer.ChainManager
	mu    sync.Mutex
	calls int
	every int
	stall time.Duration
	// stateStall, while armed, delays every State lookup (a slow disk under
	// the node that is validating what a peer has just sent)
	stateStall atomic.Int64
}

func (c *stallingCM) State(id types.BlockID) (consensus.State, bool) {
	if d := c.stateStall.Load(); d > 0 {
		time.Sleep(time.Duration(d))
	}
	return c.ChainManager.State(id)
}

func (c *stallingCM) Headers(index types.ChainIndex, max uint64) ([]types.BlockHeader, uint64, error) {
	hs, rem, err := c.ChainManager.Headers(index, max)
	c.mu.Lock()
	c.calls++
	hold := err == nil && len(hs) > 0 && c.every > 0 && c.calls%c.every == 0
	c.mu.Unlock()
	if hold {
		time.Sleep(c.stall)
	}
	return hs, rem, err
}

func newNetNode(e *sim.Env, inv string, net_ *gen.Net, nw *simnet.Net, i int, cm syncer.ChainManager, s *chainSUT, opts ...syncer.Option) *netNode {
	return newNetNodeAt(e, net_, nw, i, fmt.Sprintf("10.%d.0.%d", i/200, i%200+1), true, cm, s, opts...)
}

// newNetNodeAt creates a node with the given unique-id index and IP address;
// run=false leaves the syncer's own loops off (the node only serves the
// connections it forms itself).
func newNetNodeAt(e *sim.Env, net_ *gen.Net, nw *simnet.Net, i int, host string, run bool, cm syncer.ChainManager, s *chainSUT, opts ...syncer.Option) *netNode {
	n := &netNode{name: fmt.Sprintf("node%d", i), host: host, s: s, ps: newPeerStore(e), runErr: make(chan error, 1)}
	n.addr = n.host + ":9981"
	l, err := nw.Listen(n.addr)
	if err != nil {
		e.Infraf("listen: %v", err)
	}
	n.l = l
	lvl := zapcore.ErrorLevel
	if e.Verbose {
		lvl = zapcore.DebugLevel
	}
	core, logs := observer.New(lvl)
	n.logs = logs
	var uid gateway.UniqueID
	copy(uid[:], fmt.Sprintf("v%07d", i))
	all := append([]syncer.Option{
		syncer.WithDialer(&simnet.Dialer{N: nw, Host: n.host}),
		syncer.WithLogger(zap.New(core)),
	}, opts...)
	if cm == nil {
		cm = s.cm
	}
	n.sy = syncer.New(l, cm, n.ps, gateway.Header{GenesisID: net_.Genesis.ID(), UniqueID: uid, NetAddress: n.addr}, all...)
	if run {
		go func() { n.runErr <- n.sy.Run() }()
	}
	return n
}

func (n *netNode) close() {
	if !n.closed {
		n.closed = true
		n.sy.Close()
	}
}

// panics returns "panic in RPC handler" entries the syncer logged.
func (n *netNode) panics() []string {
	var out []string
	for _, en := range n.logs.All() {
		if en.Message == "panic in RPC handler" {
			out = append(out, fmt.Sprintf("%v\n%v", en.ContextMap()["error"], en.ContextMap()["stack"]))
		}
	}
	return out
}

// auditNode is the C01 audit of a node's reported chain.
func auditNode(e *sim.Env, inv string, n *netNode, tree *gen.Tree) *gen.Node {
	ts := n.s.cm.TipState()
	tipNode, ok := tree.ByID[ts.Index.ID]
	if !ok {
		e.Violationf(inv+".node-valid", "tip-unknown:"+n.name, "%s reports tip %v which is not a block of the generated tree", n.name, ts.Index)
	}
	if !tipNode.Valid() {
		e.Violationf(inv+".node-valid", "invalid-tip:"+tipNode.Corrupt, "%s adopted the invalid block %s", n.name, tipNode.Describe())
	}
	if !bytes.Equal(gen.StateBytes(ts), gen.StateBytes(tipNode.L.State)) {
		e.Violationf(inv+".node-valid", "state-mismatch", "%s: tip state differs from independent replay at %s: %s", n.name, tipNode.Describe(), stateDiff(ts, tipNode.L.State))
	}
	if n.cpHeight > 0 {
		// the history sample a node offers its peers must reach down to the
		// lowest block it has: any fork point at or above the checkpoint has to
		// be findable from it
		if hist, err := n.s.cm.History(); err == nil {
			if lowest, ok := n.s.cm.BestIndex(n.cpHeight); ok {
				found := false
				for _, id := range hist {
					found = found || id == lowest.ID
				}
				if !found {
					e.Violationf(inv+".checkpoint-history", "lowest-block-missing", "%s (started from a checkpoint at height %d, tip %v): History() does not contain its lowest block %v, so a peer on a branch that forks there finds no common block", n.name, n.cpHeight, ts.Index, lowest)
				}
			}
		}
	}
	path := tipNode.PathFromGenesis()
	for h, x := range path {
		if uint64(h) < n.cpHeight {
			continue
		}
		idx, ok := n.s.cm.BestIndex(uint64(h))
		if !ok || idx.ID != x.ID {
			if other, ok2 := tree.ByID[idx.ID]; ok2 && !other.Valid() {
				e.Violationf(inv+".node-valid", "invalid-in-chain:"+other.Corrupt, "%s has the invalid block %s at height %d of its best chain", n.name, other.Describe(), h)
			}
			e.Violationf(inv+".node-valid", "index", "%s: BestIndex(%d)=%v (ok=%v) is not the ancestor %v of its tip", n.name, h, idx, ok, x.Index())
		}
	}
	return tipNode
}

// feed hands blocks directly to a node's manager (its "own" branch).
func feed(e *sim.Env, inv string, n *netNode, target *gen.Node) {
	if target.Parent == nil {
		return
	}
	path := target.PathFromGenesis()[1:]
	if n.cpHeight > 0 {
		// a checkpoint node has (and accepts) nothing at or below its checkpoint
		for len(path) > 0 && path[0].Height <= n.cpHeight {
			path = path[1:]
		}
		if len(path) == 0 {
			return
		}
	}
	if err := n.s.cm.AddBlocks(blocksOf(path)); err != nil {
		e.Violationf(inv+".valid-accepted", "feed", "%s rejected its own valid branch %s: %v", n.name, target.Describe(), err)
	}
}

// redialWhenAlone is the operator's side of a bootstrap: the leaf dials the
// known full node again whenever it has no peers. (A full node disconnects a
// peer it shares no sampled history with, which a node fresh from a checkpoint
// is until it has synced; the syncer's own loop retries an address only every
// five minutes, and every attempt races with that disconnect.)
func redialWhenAlone(e *sim.Env, leaf *netNode, addr string) {
	stop := make(chan struct{})
	e.OnCleanup(func() { close(stop) })
	go func() {
		for {
			select {
			case <-stop:
				return
			case <-time.After(20 * time.Second):
			}
			if !leaf.closed && len(leaf.sy.Peers()) == 0 {
				ctx, cancel := context.WithTimeout(context.Background(), 5*time.Second)
				leaf.sy.Connect(ctx, addr)
				cancel()
			}
		}
	}()
}

var _ = types.VoidAddress
var _ = simdisk.New

// lastLogs returns the last k log lines of the node (debug level only in verbose runs).
func (n *netNode) lastLogs(k int) []string {
	all := n.logs.All()
	var filtered []observer.LoggedEntry
	for _, en := range all {
		if en.Message != "no peers to connect to" {
			filtered = append(filtered, en)
		}
	}
	all = filtered
	if len(all) > k {
		all = all[len(all)-k:]
	}
	var out []string
	for _, en := range all {
		out = append(out, fmt.Sprintf("%s %s %s %v", en.Time.Format("15:04:05.000"), en.LoggerName, en.Message, en.ContextMap()))
	}
	return out
}
