package props

import (
	"bytes"
	"context"
	"errors"
	"fmt"
	"go.sia.tech/core/consensus"
	"net"
	"sort"
	"strings"
	"sync"
	"time"

	"go.sia.tech/core/types"
	rhp4 "go.sia.tech/coreutils/rhp/v4"
	"go.sia.tech/coreutils/syncer"
	"go.sia.tech/coreutils/threadgroup"
	"go.sia.tech/coreutils/wallet"

	proto4 "go.sia.tech/core/rhp/v4"

	"verif/gen"
	"verif/sim"
	"verif/simdisk"
	"verif/simnet"
)

// c18Problems collects oracle failures observed on goroutines other than the
// run's own (handlers, workers); the run goroutine raises the first one.
type c18Problems struct {
	mu   sync.Mutex
	list [][3]string
}

func (p *c18Problems) add(inv, sig, detail string) {
	p.mu.Lock()
	p.list = append(p.list, [3]string{inv, sig, detail})
	p.mu.Unlock()
}

func (p *c18Problems) raise(e *sim.Env) {
	p.mu.Lock()
	defer p.mu.Unlock()
	if len(p.list) > 0 {
		x := p.list[0]
		e.Violationf(x[0], x[1], "%s", x[2])
	}
}

// ---------------------------------------------------------------------------
// thread group

func c18ThreadGroup(e *sim.Env) {
	e.Shape("threadgroup")
	tg := threadgroup.New()
	var pr c18Problems
	var mu sync.Mutex
	active := 0        // successful Adds whose done has not been called
	stopReturned := 0  // Stop calls that returned
	stopBegan := false // some Stop call has been entered
	var wg sync.WaitGroup

	type op struct {
		kind         int // 0 Add, 1 AddContext (thread ends when its context does), 2 WithContext
		start, hold  time.Duration
		doubleCancel bool
	}
	type stopper struct{ at time.Duration }
	var ops []op
	horizon := time.Duration(e.Range(50, 4000)) * time.Millisecond
	for i, n := 0, e.Range(1, 12); i < n; i++ {
		ops = append(ops, op{kind: e.Pick(3, 3, 1), start: time.Duration(e.Intn(int(horizon))), hold: time.Duration(e.Range(0, 2000)) * time.Millisecond, doubleCancel: e.Chance(1, 3)})
	}
	var stops []stopper
	for i, n := 0, e.Range(1, 3); i < n; i++ {
		stops = append(stops, stopper{at: time.Duration(e.Intn(int(horizon)))})
	}
	if e.Chance(1, 4) {
		// several at the same instant
		for i := range ops {
			if e.Chance(1, 2) {
				ops[i].start = stops[0].at
			}
		}
	}
	isClosed := func() bool {
		select {
		case <-tg.Done():
			return true
		default:
			return false
		}
	}
	var ctxs []context.Context
	for _, o := range ops {
		o := o
		wg.Add(1)
		go func() {
			defer wg.Done()
			time.Sleep(o.start)
			switch o.kind {
			case 0:
				closedBefore := isClosed()
				mu.Lock()
				retBefore := stopReturned > 0
				mu.Unlock()
				done, err := tg.Add()
				if err != nil {
					if !errors.Is(err, threadgroup.ErrClosed) {
						pr.add("C18.threadgroup", "add-error", fmt.Sprintf("Add returned %v", err))
					}
					if !isClosed() {
						pr.add("C18.threadgroup", "add-refused-while-open", "Add returned ErrClosed although the group's Done channel is not closed")
					}
					return
				}
				if closedBefore || retBefore {
					pr.add("C18.threadgroup", "add-after-stop", fmt.Sprintf("Add succeeded although the group was already stopped (Done closed before the call: %v, a Stop had returned: %v)", closedBefore, retBefore))
				}
				mu.Lock()
				// an admitted thread holds every Stop back until it calls done
				if stopReturned > 0 {
					pr.add("C18.threadgroup", "admitted-after-stop-returned", "Add succeeded, and by the time it returned a Stop call had already returned: that Stop did not wait for this thread")
				}
				active++
				mu.Unlock()
				time.Sleep(o.hold)
				mu.Lock()
				active--
				mu.Unlock()
				done()
			case 1:
				closedBefore := isClosed()
				ctx, cancel, err := tg.AddContext(context.Background())
				if err != nil {
					if !isClosed() {
						pr.add("C18.threadgroup", "add-refused-while-open", "AddContext returned an error although the group's Done channel is not closed")
					}
					return
				}
				if closedBefore {
					pr.add("C18.threadgroup", "add-after-stop", "AddContext succeeded although the group's Done channel was already closed")
				}
				mu.Lock()
				if stopReturned > 0 {
					pr.add("C18.threadgroup", "admitted-after-stop-returned", "AddContext succeeded, and by the time it returned a Stop call had already returned: that Stop did not wait for this thread")
				}
				active++
				mu.Unlock()
				// a well-behaved thread: works until its context ends
				select {
				case <-ctx.Done():
				case <-time.After(o.hold + time.Hour):
					pr.add("C18.threadgroup", "context-not-cancelled", "the context of AddContext was not cancelled within an hour of simulated time although Stop was called")
				}
				mu.Lock()
				active--
				mu.Unlock()
				cancel()
				if o.doubleCancel {
					cancel()
				}
			case 2:
				ctx, cancel := tg.WithContext(context.Background())
				mu.Lock()
				ctxs = append(ctxs, ctx)
				mu.Unlock()
				_ = cancel
			}
		}()
	}
	var swg sync.WaitGroup
	for _, s := range stops {
		s := s
		swg.Add(1)
		go func() {
			defer swg.Done()
			time.Sleep(s.at)
			mu.Lock()
			stopBegan = true
			mu.Unlock()
			tg.Stop()
			mu.Lock()
			stopReturned++
			if active != 0 {
				pr.add("C18.threadgroup", "stop-returned-early", fmt.Sprintf("Stop returned while %d added threads had not called done", active))
			}
			mu.Unlock()
			if !isClosed() {
				pr.add("C18.threadgroup", "done-open-after-stop", "Done channel still open after Stop returned")
			}
		}()
	}
	// everything a thread waits for is bounded by horizon + hold; Stop must be back by then
	time.Sleep(horizon + 3*time.Second)
	mu.Lock()
	sr := stopReturned
	mu.Unlock()
	pr.raise(e)
	if sr != len(stops) {
		e.Violationf("C18.threadgroup", "stop-hangs", "%d of %d Stop calls have not returned %v after the last thread ended", len(stops)-sr, len(stops), 3*time.Second-2*time.Second)
	}
	wg.Wait()
	swg.Wait()
	pr.raise(e)
	time.Sleep(time.Millisecond)
	for _, ctx := range ctxs {
		if ctx.Err() == nil {
			e.Violationf("C18.threadgroup", "withcontext-not-cancelled", "a context from WithContext is still live after Stop returned")
		}
	}
	if _, err := tg.Add(); !errors.Is(err, threadgroup.ErrClosed) {
		e.Violationf("C18.threadgroup", "add-after-stop", "Add after Stop returned %v", err)
	}
	tg.Stop() // idempotent
	_ = stopBegan
	e.Nontrivial = true
	e.Probe("threadgroup_runs")
}

// ---------------------------------------------------------------------------
// syncer: in-flight limits

// limitCM wraps the serving node's chain manager; tagged SendV2Blocks
// requests block in it for their planned duration while it counts how many
// run at once per client and per subnet.
type limitCM struct {
	syncer.ChainManager
	mu        sync.Mutex
	pr        *c18Problems
	groupOf   map[int]string
	block     map[[2]int]time.Duration
	m, q      int
	active    map[int]int
	activeG   map[string]int
	calls     map[[2]int]int
	cur, peak int // all tagged handlers running now / maximum since the last reset
	// block submissions by the syncer's own sync (AddBlocks / AddValidatedV2Blocks)
	addDelay time.Duration
	curAdd   int
	adds     int
	// the same for the requests of the second wave only (request numbers >= 1000):
	// a straggler of the burst whose client gave up long ago may still arrive
	curWave, peakWave int
	entered           int
	closed            bool // Close has returned
}

func c18Tag(client, req int) types.BlockID {
	var id types.BlockID
	id[0], id[1] = 0xC1, 0x18
	id[2] = byte(client)
	id[3], id[4] = byte(req>>8), byte(req)
	return id
}

func (c *limitCM) BlocksForHistory(history []types.BlockID, max uint64) ([]types.Block, uint64, error) {
	if len(history) != 1 || history[0][0] != 0xC1 || history[0][1] != 0x18 {
		return c.ChainManager.BlocksForHistory(history, max)
	}
	client, req := int(history[0][2]), int(history[0][3])<<8|int(history[0][4])
	c.mu.Lock()
	if c.closed {
		c.pr.add("C18.syncer-close", "handler-after-close", fmt.Sprintf("an RPC handler (client %d request %d) started after Syncer.Close had returned", client, req))
	}
	g := c.groupOf[client]
	c.active[client]++
	c.activeG[g]++
	c.cur++
	c.entered++
	if c.cur > c.peak {
		c.peak = c.cur
	}
	if req >= 1000 {
		c.curWave++
		if c.curWave > c.peakWave {
			c.peakWave = c.curWave
		}
	}
	c.calls[[2]int{client, req}]++
	if c.calls[[2]int{client, req}] > 1 {
		c.pr.add("C18.syncer-inflight", "request-handled-twice", fmt.Sprintf("request %d of client %d reached the chain manager %d times", req, client, c.calls[[2]int{client, req}]))
	}
	if c.m > 0 && c.active[client] > c.m {
		c.pr.add("C18.syncer-inflight", "per-peer-limit-exceeded", fmt.Sprintf("%d handlers run at once for one peer, MaxInflightRPCs is %d", c.active[client], c.m))
	}
	if c.q > 0 && c.activeG[g] > c.q {
		c.pr.add("C18.syncer-inflight", "per-subnet-limit-exceeded", fmt.Sprintf("%d handlers run at once for subnet %s, MaxInflightRPCsPerSubnet is %d", c.activeG[g], g, c.q))
	}
	d := c.block[[2]int{client, req}]
	c.mu.Unlock()
	time.Sleep(d)
	c.mu.Lock()
	c.active[client]--
	c.activeG[g]--
	c.cur--
	if req >= 1000 {
		c.curWave--
	}
	c.mu.Unlock()
	return nil, 0, nil
}

func (c *limitCM) gateAdd(what string) func() {
	c.mu.Lock()
	if c.closed {
		c.pr.add("C18.syncer-close", "chain-write-after-close", fmt.Sprintf("the syncer called %s after Syncer.Close had returned", what))
	}
	c.curAdd++
	c.adds++
	d := c.addDelay
	c.mu.Unlock()
	time.Sleep(d)
	return func() {
		c.mu.Lock()
		c.curAdd--
		c.mu.Unlock()
	}
}

func (c *limitCM) AddBlocks(blocks []types.Block) error {
	defer c.gateAdd("AddBlocks")()
	return c.ChainManager.AddBlocks(blocks)
}

func (c *limitCM) AddValidatedV2Blocks(blocks []types.Block, states []consensus.State) error {
	defer c.gateAdd("AddValidatedV2Blocks")()
	return c.ChainManager.AddValidatedV2Blocks(blocks, states)
}

func c18SubnetOf(host string, bits int) string {
	ip := net.ParseIP(host).To4()
	mask := net.CIDRMask(bits, 32)
	return (&net.IPNet{IP: ip.Mask(mask), Mask: mask}).String()
}

type c18Client struct {
	idx  int
	n    *netNode
	peer *syncer.Peer
}

type c18Req struct {
	client           int
	req              int
	offset, block    time.Duration
	timeout          time.Duration
	err              error
	returned, admits bool
}

func c18Inflight(e *sim.Env) {
	now := time.Now()
	gnet := gen.NewNet(e, now, gen.NetOpts{MaxHeight: 100})
	tree := gen.NewTree(gnet)
	tip := tree.Genesis
	for i, n := 0, e.Range(1, 5); i < n; i++ {
		tip = tree.Extend(e, tip, gen.BlockOpts{Now: now, Miner: types.VoidAddress, MinGap: true})
	}
	// the first client holds more of the chain than the server: the server's own
	// sync (parallel fetch + block submission) is then in progress during the run
	far := tip
	for i, n := 0, e.Range(0, 40); i < n; i++ {
		far = tree.Extend(e, far, gen.BlockOpts{Now: now, Miner: types.VoidAddress, MinGap: true})
	}
	nw := simnet.New(simnet.Config{Seed: e.Seed, MinLatency: time.Duration(e.Range(1, 20)) * time.Millisecond, Jitter: time.Duration(e.Range(0, 100)) * time.Millisecond})
	e.OnCleanup(nw.Shutdown)

	// limit configuration, including the disabled forms
	m := []int{1, 1, 2, 3, 5, 8, 64, 0, -1}[e.Intn(9)]
	q := []int{0, -1, 1, 2, 3, 4, 6, 10, 256}[e.Intn(9)]
	bits := []int{32, 32, 24, 16, 8, 0, 40}[e.Intn(7)] // 40 is out of range: the documented default (/32) applies
	effBits := bits
	if bits > 32 {
		effBits = 32
	}
	rpcTimeout := time.Duration(e.Range(20, 600)) * time.Second
	e.Shape("inflight", fmt.Sprint(m), fmt.Sprint(q), fmt.Sprint(bits))
	e.Logf("MaxInflightRPCs=%d MaxInflightRPCsPerSubnet=%d prefix=/%d rpcTimeout=%v", m, q, bits, rpcTimeout)

	pr := &c18Problems{}
	ss := newChainSUT(e, gnet, simdisk.New())
	lcm := &limitCM{addDelay: time.Duration(e.Range(0, 1500)) * time.Millisecond, ChainManager: ss.cm, pr: pr, groupOf: map[int]string{}, block: map[[2]int]time.Duration{}, m: m, q: q, active: map[int]int{}, activeG: map[string]int{}, calls: map[[2]int]int{}}
	opts := []syncer.Option{
		syncer.WithMaxInflightRPCs(m),
		syncer.WithMaxInflightRPCsPerSubnet(q),
		syncer.WithRPCTimeout(rpcTimeout),
		syncer.WithMaxInboundPeers(64),
		syncer.WithPeerDiscoveryInterval(time.Hour),
		syncer.WithSyncInterval(time.Duration(e.Range(100, 3000)) * time.Millisecond),
		syncer.WithMaxSendBlocks(uint64([]int{1, 3, 10, 100}[e.Intn(4)])),
	}
	if bits != 32 || e.Chance(1, 2) {
		opts = append(opts, syncer.WithInflightRPCSubnetPrefixes(bits, 48))
	}
	srv := newNetNodeAt(e, gnet, nw, 1, "10.0.0.1", true, lcm, ss, opts...)
	feed(e, "C18", srv, tip)
	closed := false
	e.OnCleanup(func() {
		if !closed {
			srv.close()
		}
	})

	// clients in a few subnets
	pool := []string{"10.1.1.%d", "10.1.1.%d", "10.1.2.%d", "10.2.1.%d", "11.0.0.%d"}
	k := e.Range(1, 6)
	var clients []*c18Client
	for i := 0; i < k; i++ {
		host := fmt.Sprintf(pool[e.Intn(len(pool))], 10+i)
		ccm := newTreeCM(tree.Genesis, "honest")
		if i == 0 {
			ccm = newTreeCM(far, "honest")
		}
		cn := newNetNodeAt(e, gnet, nw, 50+i, host, false, ccm, nil)
		ctx, cancel := context.WithTimeout(context.Background(), 5*time.Second)
		p, err := cn.sy.Connect(ctx, srv.addr)
		cancel()
		if err != nil {
			e.Infraf("client connect: %v", err)
		}
		c := &c18Client{idx: i, n: cn, peer: p}
		clients = append(clients, c)
		lcm.groupOf[i] = c18SubnetOf(host, effBits)
		e.OnCleanup(func() { c.peer.Close(); c.n.close() })
	}

	// the burst
	var reqs []*c18Req
	perClient := map[int][]*c18Req{}
	window := time.Duration(e.Range(0, 400)) * time.Millisecond
	tinyTimeouts := e.Chance(1, 3)
	for _, c := range clients {
		var total time.Duration
		for j, n := 0, e.Range(1, 12); j < n; j++ {
			r := &c18Req{client: c.idx, req: j, offset: time.Duration(e.Intn(int(window) + 1)), block: time.Duration(e.Range(5, 3000)) * time.Millisecond}
			total += r.block
			reqs = append(reqs, r)
			perClient[c.idx] = append(perClient[c.idx], r)
			lcm.block[[2]int{c.idx, j}] = r.block
		}
		for _, r := range perClient[c.idx] {
			r.timeout = total + 30*time.Second
			if tinyTimeouts && e.Chance(1, 3) {
				// the client gives up while the handler is still queued or running
				r.timeout = time.Duration(e.Range(1, 1500)) * time.Millisecond
				e.Fault("client-timeout")
			}
		}
	}
	// can the subnet limit bind at all?
	subnetCanBind := false
	if q > 0 {
		perG := map[string]int{}
		for _, c := range clients {
			n := len(perClient[c.idx])
			if m > 0 && n > m {
				n = m
			}
			perG[lcm.groupOf[c.idx]] += n
		}
		for _, n := range perG {
			if n > q {
				subnetCanBind = true
			}
		}
	}
	maxBlock := time.Duration(0)
	for _, r := range reqs {
		if r.block > maxBlock {
			maxBlock = r.block
		}
	}
	closeMid := e.Chance(1, 3)
	closeAt := time.Duration(e.Intn(int(window+maxBlock) + 1))

	var wg sync.WaitGroup
	var rmu sync.Mutex
	fire := func(r *c18Req) {
		wg.Add(1)
		go func() {
			defer wg.Done()
			time.Sleep(r.offset)
			_, _, err := clients[r.client].peer.SendV2Blocks(context.Background(), []types.BlockID{c18Tag(r.client, r.req)}, 1, r.timeout)
			rmu.Lock()
			r.err, r.returned = err, true
			rmu.Unlock()
		}()
	}
	for _, r := range reqs {
		fire(r)
	}

	// 1 in 3: the application has closed the listener itself before it closes
	// the syncer (Close then finds it closed already)
	listenerFirst := e.Chance(1, 3)
	doClose := func() {
		start := time.Now()
		ch := make(chan struct{})
		if listenerFirst {
			srv.l.Close()
			e.Fault("listener-closed-before-syncer")
		}
		go func() {
			srv.sy.Close()
			lcm.mu.Lock()
			lcm.closed = true
			cur, curAdd := lcm.cur, lcm.curAdd
			lcm.mu.Unlock()
			if cur != 0 {
				pr.add("C18.syncer-close", "close-returned-early", fmt.Sprintf("Syncer.Close returned while %d RPC handlers were still running", cur))
			}
			if curAdd != 0 {
				pr.add("C18.syncer-close", "close-returned-during-sync", fmt.Sprintf("Syncer.Close returned while %d block submissions of the syncer's own sync were still executing", curAdd))
			}
			close(ch)
		}()
		// batches the sync has already fetched are still submitted: up to one
		// (delayed) submission per block the server was behind
		bound := maxBlock + time.Duration(far.Height-tip.Height+2)*lcm.addDelay + 2*time.Second + 20*time.Second
		select {
		case <-ch:
		case <-time.After(bound):
			pr.raise(e)
			e.Violationf("C18.syncer-close", "close-hangs", "Syncer.Close has not returned %v after it was called (longest handler: %v)", bound, maxBlock)
		}
		closed = true
		e.Logf("Close returned after %v", time.Since(start))
		select {
		case <-srv.runErr:
		case <-time.After(5 * time.Second):
			e.Violationf("C18.syncer-close", "run-still-running", "Syncer.Run has not returned 5s after Close did")
		}
		ctx, cancel := context.WithTimeout(context.Background(), 2*time.Second)
		_, err := srv.sy.Connect(ctx, clients[0].n.addr)
		cancel()
		if err == nil {
			e.Violationf("C18.syncer-close", "connect-after-close", "Connect succeeded on a closed syncer")
		}
		if n := len(srv.sy.Peers()); n != 0 {
			e.Violationf("C18.syncer-close", "peers-after-close", "%d peers remain registered after Close and Run returned", n)
		}
		pr.raise(e)
	}

	if closeMid {
		time.Sleep(closeAt)
		e.Fault("close-mid-burst")
		doClose()
		wg.Wait()
		time.Sleep(maxBlock + time.Second)
		pr.raise(e)
		e.Nontrivial = true
		e.Probe("inflight_closed_mid_burst")
		return
	}
	wg.Wait()
	pr.raise(e)
	if ps := srv.panics(); len(ps) > 0 {
		e.Violationf("C18.panic", "rpc-handler-panic", "the syncer recovered a panic in an RPC handler: %s", ps[0])
	}

	// back-pressure, not drops: with no client giving up early and the subnet
	// limit out of reach, every request is answered, exactly once
	if !tinyTimeouts && !subnetCanBind {
		for _, r := range reqs {
			if r.err != nil {
				e.Violationf("C18.syncer-inflight", "request-dropped", "request %d of client %d failed (%v) although only the per-peer limit (MaxInflightRPCs=%d, back-pressure) could apply: per-subnet limit %d over /%d cannot be reached by this burst", r.req, r.client, r.err, m, q, effBits)
			}
			if lcm.calls[[2]int{r.client, r.req}] != 1 {
				e.Violationf("C18.syncer-inflight", "request-lost", "request %d of client %d was answered but reached the chain manager %d times", r.req, r.client, lcm.calls[[2]int{r.client, r.req}])
			}
		}
		e.Probe("inflight_all_answered")
	} else if subnetCanBind {
		e.Probe("inflight_subnet_limit_in_reach")
	}
	// wait for handlers whose client gave up
	for i := 0; i < 100; i++ {
		lcm.mu.Lock()
		cur := lcm.cur
		lcm.mu.Unlock()
		if cur == 0 {
			break
		}
		time.Sleep(200 * time.Millisecond)
	}
	time.Sleep(time.Second)

	// slots are returned: a second wave sized exactly to the limits is admitted at once
	alive := func(c *c18Client) bool { return c.peer.Err() == nil }
	var wave []*c18Req
	perPeer := m
	if perPeer <= 0 || perPeer > 6 {
		perPeer = 6
	}
	if q > 0 {
		// one subnet, filled to its limit
		groups := map[string][]*c18Client{}
		var names []string
		for _, c := range clients {
			if alive(c) {
				g := lcm.groupOf[c.idx]
				if len(groups[g]) == 0 {
					names = append(names, g)
				}
				groups[g] = append(groups[g], c)
			}
		}
		sort.Strings(names)
		if len(names) > 0 {
			g := names[e.Intn(len(names))]
			for _, c := range groups[g] {
				for j := 0; j < perPeer && len(wave) < q; j++ {
					wave = append(wave, &c18Req{client: c.idx, req: 1000 + j})
				}
			}
		}
	} else {
		for _, c := range clients {
			if alive(c) {
				for j := 0; j < perPeer; j++ {
					wave = append(wave, &c18Req{client: c.idx, req: 1000 + j})
				}
				break
			}
		}
	}
	if len(wave) > 0 {
		// a straggler of the burst (its client gave up long ago, the request was
		// still on its way) can take a slot just as the wave arrives: a wave
		// that is turned away is sent again twice, a few seconds apart; a slot
		// that was never returned stays taken
		for attempt := 0; ; attempt++ {
			lcm.mu.Lock()
			lcm.peak, lcm.peakWave = 0, 0
			lcm.mu.Unlock()
			for _, r := range wave {
				r.req += 10 * attempt
				r.err, r.returned = nil, false
				r.block, r.timeout = 3*time.Second, time.Minute
				lcm.block[[2]int{r.client, r.req}] = r.block
				fire(r)
			}
			wg.Wait()
			pr.raise(e)
			failed := false
			for _, r := range wave {
				if r.err != nil {
					failed = true
				}
			}
			if !failed || attempt == 2 {
				break
			}
			e.Probe("second_wave_retried")
			time.Sleep(8 * time.Second)
		}
		for _, r := range wave {
			if r.err != nil {
				e.Violationf("C18.syncer-inflight", "slots-not-returned:rejected", "after the burst ended, a wave of %d requests sized to the limits (MaxInflightRPCs=%d, per subnet %d over /%d) was not fully admitted in three attempts: request of client %d failed: %v", len(wave), m, q, effBits, r.client, r.err)
			}
		}
		if lcm.peakWave != len(wave) {
			e.Violationf("C18.syncer-inflight", "slots-not-returned:serialised", "after the burst ended, a wave of %d requests sized to the limits (MaxInflightRPCs=%d, per subnet %d over /%d) reached a concurrency of %d", len(wave), m, q, effBits, lcm.peakWave)
		}
		e.Probe("inflight_second_wave")
	}
	doClose()
	e.Nontrivial = true
	e.Probe("inflight_runs")
	e.Probes["syncer_block_submissions"] += lcm.adds
}

// ---------------------------------------------------------------------------
// syncer: peer caps under connection storms

func c18PeerCap(e *sim.Env) {
	now := time.Now()
	gnet := gen.NewNet(e, now, gen.NetOpts{MaxHeight: 100})
	tree := gen.NewTree(gnet)
	nw := simnet.New(simnet.Config{Seed: e.Seed, MinLatency: time.Duration(e.Range(1, 30)) * time.Millisecond, Jitter: time.Duration(e.Range(0, 200)) * time.Millisecond})
	e.OnCleanup(nw.Shutdown)
	a := []int{0, 1, 1, 2, 3, 5, 8}[e.Intn(7)]
	b := []int{0, 1, 2, 3, 4}[e.Intn(5)]
	e.Shape("peercap", fmt.Sprint(a), fmt.Sprint(b))
	ss := newChainSUT(e, gnet, simdisk.New())
	srv := newNetNodeAt(e, gnet, nw, 1, "10.0.0.1", false, nil, ss,
		syncer.WithMaxInboundPeers(a), syncer.WithMaxOutboundPeers(b),
		syncer.WithPeerDiscoveryInterval(time.Duration(e.Range(100, 3000))*time.Millisecond),
		syncer.WithSyncInterval(time.Duration(e.Range(1, 10))*time.Second))
	// outbound targets: running nodes the server knows about
	nOut := e.Range(0, 8)
	var others []*netNode
	for i := 0; i < nOut; i++ {
		o := newNetNodeAt(e, gnet, nw, 200+i, fmt.Sprintf("10.3.%d.1", i+1), true, newTreeCM(tree.Genesis, "honest"), nil,
			syncer.WithPeerDiscoveryInterval(time.Hour), syncer.WithMaxOutboundPeers(0))
		others = append(others, o)
		srv.ps.AddPeer(o.addr)
		oo := o
		e.OnCleanup(oo.close)
	}
	go func() { srv.runErr <- srv.sy.Run() }()
	e.OnCleanup(srv.close)

	// inbound storm
	nIn := a + e.Range(1, 12)
	same := e.Chance(2, 3)
	window := time.Duration(e.Range(0, 1500)) * time.Millisecond
	var pmu sync.Mutex
	var wg sync.WaitGroup
	for i := 0; i < nIn; i++ {
		i := i
		off := time.Duration(e.Intn(int(window) + 1))
		if same {
			off = 0
		}
		churn := e.Chance(1, 4)
		churnAfter := time.Duration(e.Range(100, 3000)) * time.Millisecond
		cn := newNetNodeAt(e, gnet, nw, 50+i, fmt.Sprintf("10.4.%d.1", i+1), false, newTreeCM(tree.Genesis, "honest"), nil)
		var peers []*syncer.Peer
		e.OnCleanup(func() {
			pmu.Lock()
			for _, p := range peers {
				p.Close()
			}
			pmu.Unlock()
			cn.close()
		})
		wg.Add(1)
		go func() {
			defer wg.Done()
			time.Sleep(off)
			for round := 0; round < 2; round++ {
				ctx, cancel := context.WithTimeout(context.Background(), 5*time.Second)
				p, err := cn.sy.Connect(ctx, srv.addr)
				cancel()
				if err != nil {
					return
				}
				pmu.Lock()
				peers = append(peers, p)
				pmu.Unlock()
				if !churn {
					return
				}
				time.Sleep(churnAfter)
				p.Close()
				time.Sleep(churnAfter / 2)
			}
		}()
	}
	e.Fault("connection-storm")
	capIn, capOut := a, b
	check := func() {
		in, out := 0, 0
		for _, p := range srv.sy.Peers() {
			if p.Err() != nil {
				continue // already dead, about to be removed
			}
			if p.Inbound {
				in++
			} else {
				out++
			}
		}
		if in > capIn {
			e.Violationf("C18.peer-cap", "inbound-cap-exceeded", "%d live inbound peers, MaxInboundPeers is %d (%d connection attempts, same instant: %v)", in, a, nIn, same)
		}
		if out > capOut {
			e.Violationf("C18.peer-cap", "outbound-cap-exceeded", "%d live outbound peers, MaxOutboundPeers is %d (%d known addresses)", out, b, nOut)
		}
		if in == capIn && capIn > 0 {
			e.Probes["inbound_cap_reached"] = 1
		}
		if out == capOut && capOut > 0 {
			e.Probes["outbound_cap_reached"] = 1
		}
	}
	for i := 0; i < 400; i++ {
		time.Sleep(25 * time.Millisecond)
		check()
	}
	for i := 0; i < 20; i++ {
		time.Sleep(time.Second)
		check()
	}
	wg.Wait()
	check()
	e.Nontrivial = true
	e.Probe("peercap_runs")
}

// ---------------------------------------------------------------------------
// RHP server close

type c18Gate struct {
	mu        sync.Mutex
	pr        *c18Problems
	what      string
	durations []time.Duration
	n, cur    int
	closed    bool
}

func (g *c18Gate) enter(method string) func() {
	g.mu.Lock()
	if g.closed {
		g.pr.add("C18."+g.what+"-close", "work-after-close", fmt.Sprintf("%s was called after Close had returned", method))
	}
	d := g.durations[g.n%len(g.durations)]
	g.n++
	g.cur++
	g.mu.Unlock()
	time.Sleep(d)
	return func() {
		g.mu.Lock()
		g.cur--
		g.mu.Unlock()
	}
}

func c18RHPClose(e *sim.Env) {
	e.Shape("rhp-close")
	r := newRHPRig(e, "C18", nil)
	pr := &c18Problems{}
	g := &c18Gate{pr: pr, what: "rhp"}
	var maxBlock time.Duration
	for i := 0; i < 16; i++ {
		d := time.Duration(e.Range(0, 4000)) * time.Millisecond
		if d > maxBlock {
			maxBlock = d
		}
		g.durations = append(g.durations, d)
	}
	// a funded account and a stored sector
	contract := r.form(types.Siacoins(200), types.Siacoins(100), 50)
	ak := r.newAccountKey()
	acct := proto4.Account(ak.PublicKey())
	if _, err := rhp4.RPCFundAccounts(context.Background(), r.tr, r.cs(), r.signer, contract, []proto4.AccountDeposit{{Account: acct, Amount: types.Siacoins(50)}}); err != nil {
		e.Violationf("C18.honest-rpc", "fund", "RPCFundAccounts failed: %v", err)
	}
	data := bytes.Repeat([]byte{7}, 4096)
	wres, err := rhp4.RPCWriteSector(context.Background(), r.tr, r.prices, r.token(ak), bytes.NewReader(data), uint64(len(data)))
	if err != nil {
		e.Violationf("C18.honest-rpc", "write", "RPCWriteSector failed: %v", err)
	}
	r.contractor.gate = g.enter
	r.sectors.gate = g.enter
	e.WithSchedule(600, func() { c18RHPCloseBody(e, r, g, pr, maxBlock, ak, wres.Root, data) })
	time.Sleep(maxBlock + time.Second)
	pr.raise(e)
	r.checkHandlerPanics("close")
	e.Nontrivial = true
	e.Probe("rhp_close_runs")
}

func c18RHPCloseBody(e *sim.Env, r *rhpRig, g *c18Gate, pr *c18Problems, maxBlock time.Duration, ak types.PrivateKey, root types.Hash256, data []byte) {
	n := e.Range(1, 10)
	window := time.Duration(e.Range(0, 3000)) * time.Millisecond
	var wg sync.WaitGroup
	type res struct {
		kind  int
		start time.Duration
		err   error
	}
	results := make([]*res, n)
	for i := 0; i < n; i++ {
		x := &res{kind: e.Intn(4), start: time.Duration(e.Intn(int(window) + 1))}
		results[i] = x
		wg.Add(1)
		go func() {
			defer wg.Done()
			time.Sleep(x.start)
			ctx := context.Background()
			switch x.kind {
			case 0:
				_, x.err = rhp4.RPCSettings(ctx, r.tr)
			case 1:
				_, x.err = rhp4.RPCWriteSector(ctx, r.tr, r.prices, r.token(ak), bytes.NewReader(data), uint64(len(data)))
			case 2:
				var buf bytes.Buffer
				_, x.err = rhp4.RPCReadSector(ctx, r.tr, r.prices, r.token(ak), &buf, root, 0, 64)
			case 3:
				_, x.err = rhp4.RPCVerifySector(ctx, r.tr, r.prices, r.token(ak), root)
			}
		}()
	}
	closeAt := time.Duration(e.Intn(int(window+maxBlock) + 1))
	closers := e.Range(1, 2)
	time.Sleep(closeAt)
	e.Fault("close-with-rpcs-in-flight")
	done := make(chan struct{}, closers)
	for i := 0; i < closers; i++ {
		go func() {
			r.server.Close()
			g.mu.Lock()
			g.closed = true
			cur := g.cur
			g.mu.Unlock()
			if cur != 0 {
				pr.add("C18.rhp-close", "close-returned-early", fmt.Sprintf("Server.Close returned while %d handlers were inside the contractor / sector store", cur))
			}
			done <- struct{}{}
		}()
	}
	// a handler makes at most three gated calls
	bound := 3*maxBlock + 10*time.Second
	for i := 0; i < closers; i++ {
		select {
		case <-done:
		case <-time.After(bound):
			pr.raise(e)
			e.Violationf("C18.rhp-close", "close-hangs", "Server.Close has not returned %v after it was called (longest gated call %v)", bound, maxBlock)
		}
	}
	pr.raise(e)
	// work submitted afterwards is rejected
	if _, err := rhp4.RPCSettings(context.Background(), r.tr); err == nil {
		e.Violationf("C18.rhp-close", "rpc-after-close", "RPCSettings succeeded after Server.Close returned")
	} else if !strings.Contains(err.Error(), "shutting down") {
		e.Probe("rhp_after_close_other_error")
		e.Logf("rpc after close: %v", err)
	}
	var buf bytes.Buffer
	if _, err := rhp4.RPCReadSector(context.Background(), r.tr, r.prices, r.token(ak), &buf, root, 0, 64); err == nil {
		e.Violationf("C18.rhp-close", "rpc-after-close", "RPCReadSector succeeded after Server.Close returned")
	}
	wg.Wait()
}

// ---------------------------------------------------------------------------
// wallet close

type c18Syncer struct{ g *c18Gate }

func (s *c18Syncer) BroadcastV2TransactionSet(types.ChainIndex, []types.V2Transaction) error {
	defer s.g.enter("syncer.BroadcastV2TransactionSet")()
	return nil
}

type c18WalletStore struct {
	*walletStore
	g *c18Gate
}

func (s *c18WalletStore) BroadcastedSets() ([]wallet.BroadcastedSet, error) {
	defer s.g.enter("store.BroadcastedSets")()
	return s.walletStore.BroadcastedSets()
}

func c18WalletClose(e *sim.Env) {
	e.Shape("wallet-close")
	now := time.Now()
	gnet := gen.NewNet(e, now, gen.NetOpts{MaxHeight: 200, Regime: "v2", Actors: 3})
	tree := gen.NewTree(gnet)
	s := newChainSUT(e, gnet, simdisk.New())
	a := gnet.Actors[0]
	pr := &c18Problems{}
	g := &c18Gate{pr: pr, what: "wallet", durations: []time.Duration{0}}
	st := newWalletStore()
	gst := &c18WalletStore{walletStore: st, g: g}
	debounce := time.Duration(e.Range(1, 3000)) * time.Millisecond
	var w *wallet.SingleAddressWallet
	var err error
	e.Guard("C18.panic", "NewSingleAddressWallet", func() {
		w, err = wallet.NewSingleAddressWallet(a.SK, s.cm, gst, &c18Syncer{g}, wallet.WithDebounceInterval(debounce))
	})
	if err != nil {
		e.Violationf("C18.wallet-open", "error", "NewSingleAddressWallet failed: %v", err)
	}
	tip := tree.Genesis
	mine := func(n int) {
		for i := 0; i < n; i++ {
			tip = tree.Extend(e, tip, gen.BlockOpts{Now: now, Miner: a.Addr, MinGap: true})
			if err := s.cm.AddBlocks([]types.Block{tip.Block}); err != nil {
				e.Violationf("C18.valid-accepted", "setup", "setup block rejected: %v", err)
			}
		}
		syncWallet(e, "C18", s, w, st, 1000, func() int { return 100 })
	}
	mine(int(gnet.Network.MaturityDelay) + 3)
	// something to rebroadcast
	for i, n := 0, e.Range(0, 3); i < n; i++ {
		txn := types.V2Transaction{SiacoinOutputs: []types.SiacoinOutput{{Address: gnet.Actors[1].Addr, Value: types.Siacoins(uint32(1 + i))}}}
		basis, toSign, ferr := w.FundV2Transaction(&txn, types.Siacoins(uint32(1+i)), false)
		if ferr != nil {
			break
		}
		w.SignV2Inputs(&txn, toSign)
		if berr := w.BroadcastV2TransactionSet(basis, []types.V2Transaction{txn}); berr != nil {
			e.Logf("broadcast: %v", berr)
		}
	}
	var maxBlock time.Duration
	g.mu.Lock()
	g.durations = nil
	for i := 0; i < 8; i++ {
		d := time.Duration(e.Range(0, 5000)) * time.Millisecond
		if d > maxBlock {
			maxBlock = d
		}
		g.durations = append(g.durations, d)
	}
	g.mu.Unlock()
	// reorg notifications keep arriving while the wallet is closed
	closeAt := time.Duration(e.Range(0, int(2*debounce/time.Millisecond)+6000)) * time.Millisecond
	stopMining := make(chan struct{})
	minerDone := make(chan struct{})
	blocks := e.Range(1, 12)
	gap := time.Duration(e.Range(1, 2000)) * time.Millisecond
	var pre []*gen.Node
	x := tip
	for i := 0; i < blocks; i++ {
		x = tree.Extend(e, x, gen.BlockOpts{Now: now, Miner: types.VoidAddress, MinGap: true})
		pre = append(pre, x)
	}
	e.WithSchedule(600, func() {
		go func() {
			defer close(minerDone)
			for _, b := range pre {
				select {
				case <-stopMining:
					return
				case <-time.After(gap):
				}
				s.cm.AddBlocks([]types.Block{b.Block})
			}
		}()
		time.Sleep(closeAt)
		e.Fault("close-during-rebroadcast")
		g.mu.Lock()
		if g.cur > 0 {
			e.Probes["wallet_closed_while_rebroadcasting"] = 1
		}
		g.mu.Unlock()
		done := make(chan struct{})
		go func() {
			w.Close()
			g.mu.Lock()
			g.closed = true
			cur := g.cur
			g.mu.Unlock()
			if cur != 0 {
				pr.add("C18.wallet-close", "close-returned-early", fmt.Sprintf("Wallet.Close returned while the rebroadcast loop was inside %d store / syncer calls", cur))
			}
			close(done)
		}()
		bound := time.Duration(blocks+4)*maxBlock*2 + 10*time.Second
		select {
		case <-done:
		case <-time.After(bound):
			e.Violationf("C18.wallet-close", "close-hangs", "Wallet.Close has not returned %v after it was called", bound)
		}
		pr.raise(e)
		<-minerDone
		close(stopMining)
		time.Sleep(debounce + maxBlock + time.Second)
		pr.raise(e)
	})
	w.Close() // idempotent
	e.Nontrivial = true
	e.Probe("wallet_close_runs")
	e.Probes["wallet_rebroadcast_calls"] += g.n
}

func runC18(e *sim.Env) {
	// in the lock-yield flavour the scenarios without a simulated network run
	// with every Lock / Unlock of a coreutils mutex as a seeded scheduling
	// point; the two network scenarios keep the runtime's order (hundreds of mux
	// and gateway goroutines per run make lock-level scheduling there too slow
	// for the run counts these scenarios need)
	switch e.Pick(2, 5, 4, 2, 2) {
	case 0:
		e.WithSchedule(600, func() { c18ThreadGroup(e) })
	case 1:
		c18Inflight(e)
	case 2:
		c18PeerCap(e)
	case 3:
		c18RHPClose(e)
	case 4:
		c18WalletClose(e)
	}
}

func init() {
	register(&Prop{
		ID: "C18", Run: runC18, Race: true, Flavour: "instrumented", Quick: 4000, Thorough: 120000, Level: "exploration",
		Rule:        "one run = one drawn scenario. threadgroup: 1-12 threads (Add / AddContext / WithContext with drawn start and hold times, several at the same instant as a Stop) and 1-3 Stop callers; Stop returns only with no added thread live, never hangs once threads end, Add is refused exactly when Done is closed, contexts are cancelled. syncer-inflight: a real serving node with drawn MaxInflightRPCs {1,2,3,5,8,64,0,-1}, MaxInflightRPCsPerSubnet {0,-1,1,2,3,4,6,10,256} and subnet prefix {/32,/24,/16,/8,/0, out of range}, 1-6 real client syncers in drawn subnets each firing 1-12 tagged SendV2Blocks requests at drawn offsets; the server's ChainManager wrapper blocks each for its drawn time (5ms-3s) and counts concurrency per peer and per subnet (never above the limits); when no client gives up early and the subnet limit is out of reach every request is answered exactly once (back-pressure, no drops); afterwards a second wave sized exactly to the limits must be admitted all at once (slots returned), then Close; the first client also holds up to 40 blocks more than the server, whose own sync (parallel fetch, AddBlocks / AddValidatedV2Blocks delayed by a drawn time) is thus in progress; 1 run in 3 closes mid-burst instead. Close must return within the longest handler + 22s, only with no handler and no block submission of its own sync running, Run returns, later Connect fails, no handler starts afterwards. syncer-peercap: drawn MaxInboundPeers {0,1,2,3,5,8} / MaxOutboundPeers {0..4}, cap+1..cap+12 clients connecting (2 runs in 3 at the same instant, some churning) and 0-8 known listening nodes for the peer loop; at every 25ms poll the live inbound / outbound peers stay within the caps. rhp-close: real rhp4.Server with 1-10 concurrent RPCs whose contractor / sector-store calls block for drawn times, 1-2 concurrent Close calls at a drawn instant: Close returns within bound, only with no handler inside the host's stores, none enters afterwards, later RPCs fail. wallet-close: real wallet with blocking store / syncer during rebroadcast while reorg notifications keep arriving; Close returns, with the rebroadcast loop outside every call, and no call follows; distinct = (scenario, limit configuration, fault kinds); all completed runs non-trivial",
		Real:        []string{"threadgroup.ThreadGroup", "syncer.Syncer with gateway + mux on both ends", "rhp4.Server + client RPC functions", "wallet.SingleAddressWallet", "chain.Manager"},
		Stub:        []string{"network: simnet / simrhp in-memory transports", "blocking ChainManager / contractor / sector store / wallet store / syncer wrappers (the observation points)", "disk: simdisk.DB"},
		Assumptions: []string{"thread-group, RHP-close and wallet-close scenarios run under the seeded lock-level scheduler (instrumented flavour); in the two syncer scenarios goroutine wake-up order is the single-P runtime's, perturbed per seed by drawn delays", "the race-detector schedules named in the property are not part of this check"},
	})
}

var _ = gen.NewNet
