package props

import (
	"crypto/sha256"
	"errors"
	"fmt"
	"path/filepath"
	"sort"
	"time"

	"go.sia.tech/core/types"
	"go.sia.tech/coreutils"
	"go.sia.tech/coreutils/chain"

	"verif/gen"
	"verif/sim"
	"verif/simdisk"
)

// commitPoint is one durable image the run produced.
type commitPoint struct {
	seq      int
	image    *simdisk.Image // simdisk runs
	boltCopy string         // bolt runs
	tipLogN  int            // length of the tip log when it was committed
	batch    int            // plan index in progress at the commit
	midBatch bool           // committed while AddBlocks was still running
	inReorg  bool           // committed by the store itself between two applies/reverts
}

func imageHash(im *simdisk.Image) [32]byte {
	h := sha256.New()
	var names []string
	for n := range im.Buckets {
		names = append(names, n)
	}
	sort.Strings(names)
	for _, n := range names {
		h.Write([]byte(n))
		var keys []string
		for k := range im.Buckets[n] {
			keys = append(keys, k)
		}
		sort.Strings(keys)
		for _, k := range keys {
			h.Write([]byte(k))
			h.Write(im.Buckets[n][k])
		}
	}
	var out [32]byte
	h.Sum(out[:0])
	return out
}

// boltHook wraps the bolt backend so that every commit leaves a crash image
// (bbolt writes pages only at commit: a file copy taken right after Commit is
// what survives a process stop at any later moment before the next commit).
type boltHook struct {
	*coreutils.BoltChainDB
	bf       *boltFile
	e        *sim.Env
	n        int
	onCommit func(path string)
}

func (b *boltHook) Flush() error {
	err := b.BoltChainDB.Flush()
	if err == nil {
		b.n++
		b.onCommit(b.bf.crashCopy(b.e, b.n))
	}
	return err
}

var errInjectedIO = errors.New("verif: injected I/O error")

func runC03(e *sim.Env) {
	now := time.Now()
	net := gen.NewNet(e, now, gen.NetOpts{MaxHeight: 80})
	tree := gen.NewTree(net)
	useBolt := e.Chance(1, 8)
	e.Shape("net", net.Regime, fmt.Sprint(useBolt))
	bo := gen.BlockOpts{Mix: gen.FullMix, MaxTx: e.Range(0, 4), OrderSafe: true, Now: now, Strict: genStrict}
	tree.Grow(e, gen.GrowOpts{
		Blocks:    e.Range(5, 22),
		Corrupt:   e.Range(0, 2),
		Kinds:     gen.KindsNoFuture(),
		MinerPool: []types.Address{types.VoidAddress, net.Actors[0].Addr},
		LongFork:  true,
		Block:     bo,
	})
	dominant := tree.MakeDominant(e, bo)
	plan := makePlan(e, tree)
	plan = append(plan, dominant.PathFromGenesis()[1:])

	viaValidated := make([]bool, len(plan))
	for i := range viaValidated {
		viaValidated[i] = e.Chance(1, 2)
	}

	// uninterrupted reference run (no faults, no clock jumps)
	refDisk := simdisk.New()
	refOps := 0
	refDisk.Fault = func(string) error { refOps++; return nil }
	ref := newChainSUT(e, net, refDisk)
	for _, batch := range plan {
		if len(batch) > 0 {
			ref.cm.AddBlocks(blocksOf(batch))
		}
	}
	if ref.cm.Tip() != dominant.Index() {
		e.Violationf("C03.reference-run", "not-dominant", "the uninterrupted node did not end on the dominant chain %s (tip %v)", dominant.Describe(), ref.cm.Tip())
	}
	final := takeView(ref, false)

	// the node under test, with commit recording, clock jumps and I/O faults
	var points []*commitPoint
	curBatch, inCall, inStore := 0, false, false
	var rs *recStore
	record := func(cp *commitPoint) {
		cp.seq = len(points)
		cp.tipLogN = len(rs.tipLog)
		cp.batch, cp.midBatch, cp.inReorg = curBatch, inCall, inStore
		points = append(points, cp)
		if inStore {
			e.Fault("flush-inside-reorg")
		}
	}
	var s *chainSUT
	var disk *simdisk.DB
	cached, ioFired := false, false
	var bhook *boltHook
	dir := ""
	if useBolt {
		dir = scratchDir(e)
		bf, bdb := openBolt(e, filepath.Join(dir, "node.db"))
		bhook = &boltHook{BoltChainDB: bdb, bf: bf, e: e}
		e.OnCleanup(func() { bhook.Cancel(); bf.bdb.Close() })
		rs = &recStore{}
		bhook.onCommit = func(path string) { record(&commitPoint{boltCopy: path}) }
		dbs, tip, err := chain.NewDBStore(bhook, net.Network, net.Genesis, nil)
		if err != nil {
			e.Violationf("C03.open", "NewDBStore", "NewDBStore failed: %v", err)
		}
		rs.DBStore = dbs
		s = &chainSUT{net: net, db: bhook, store: rs, cm: chain.NewManager(rs, tip)}
	} else {
		disk = simdisk.New()
		rs = &recStore{}
		disk.OnCommit = func(im *simdisk.Image) { record(&commitPoint{image: im}) }
		// 1 run in 3: the node runs on the write-back cache the package offers
		// (chain.NewCacheDB) over the disk; what the disk commits is still what
		// a crash leaves behind
		var db chain.DB = disk
		if e.Chance(1, 3) {
			db = chain.NewCacheDB(disk)
			cached = true
			e.Shape("cachedb")
			e.Probe("node_on_cachedb")
		}
		dbs, tip, err := chain.NewDBStore(db, net.Network, net.Genesis, nil)
		if err != nil {
			e.Violationf("C03.open", "NewDBStore", "NewDBStore failed: %v", err)
		}
		rs.DBStore = dbs
		s = &chainSUT{net: net, db: db, disk: disk, store: rs, cm: chain.NewManager(rs, tip)}
	}
	// F-flush: let >= 5 simulated seconds pass between two applies / reverts
	jumpDen := e.Range(2, 12)
	rs.between = func(apply bool) {
		inStore = true
		if e.Chance(1, jumpDen) {
			time.Sleep(time.Duration(5000+e.Intn(3000)) * time.Millisecond)
		}
	}
	// F-ioerr: one injected write/commit error at a drawn operation
	ioAt := -1
	if !useBolt && e.Chance(1, 4) {
		ioAt = e.Range(30, max(31, refOps))
	}
	ops := 0
	if cached {
		// the cache writes its sorted batches in an order of its own (map
		// iteration): the injected error is made independent of that order -
		// from the drawn commit on, every write to one drawn bucket fails
		failing := ioAt >= 0
		ioAt = -1
		if failing {
			bucket := []string{"MainChain", "States", "Blocks", "SiacoinElements", "SiafundElements", "FileContracts", "Tree"}[e.Intn(7)]
			after := e.Range(1, 12)
			disk.FaultAt = func(op, b string) error {
				if b == bucket && disk.Flushes >= after {
					if !ioFired {
						ioFired = true
						e.Fault("ioerr-bucket-writes-fail")
					}
					return errInjectedIO
				}
				return nil
			}
		}
	}
	if disk != nil {
		disk.Fault = func(op string) error {
			ops++
			if ops == ioAt {
				e.Fault("ioerr-" + op)
				return errInjectedIO
			}
			return nil
		}
	}

	crashed := false
	for i, batch := range plan {
		if len(batch) == 0 {
			continue
		}
		e.Step()
		curBatch, inCall, inStore = i, true, false
		func() {
			defer func() {
				if r := recover(); r != nil {
					if err, ok := r.(error); ok && errors.Is(err, errInjectedIO) {
						// documented reaction to an I/O error: the process stops
						crashed = true
						return
					}
					panic(r)
				}
			}()
			// chains of v2 blocks above the require height also arrive through the
			// syncer's pre-validated entry point
			var err error
			if states, ok := s.validatedStates(batch); ok && viaValidated[i] {
				err = s.cm.AddValidatedV2Blocks(blocksOf(batch), states)
				e.Probes["via_add_validated"]++
			} else {
				err = s.cm.AddBlocks(blocksOf(batch))
			}
			if errors.Is(err, errInjectedIO) {
				crashed = true
			}
		}()
		inCall, inStore = false, false
		e.Logf("batch %d (%d blocks, last %s): %d commits so far, tip %v", i, len(batch), batch[len(batch)-1].Describe(), len(points), s.cm.Tip())
		if crashed {
			e.Logf("injected I/O error: process stops, only committed state survives")
			break
		}
		if e.Chance(1, 6) {
			time.Sleep(time.Duration(e.Range(1, 8)) * time.Second)
		}
	}
	tipLog := append([]types.ChainIndex{tree.Genesis.Index()}, rs.tipLog...)
	e.Probes["commit_points"] += len(points)
	if crashed {
		e.Probe("crash_by_ioerr")
	}

	// reopen every distinct committed image
	seen := map[[32]byte]bool{}
	twin := &linearTwin{net: net}
	checked := 0
	maxPoints := 40
	if useBolt {
		maxPoints = 10
	}
	for _, cp := range points {
		if checked >= maxPoints {
			break
		}
		var db chain.DB
		var rdisk *simdisk.DB
		if cp.image != nil {
			hsh := imageHash(cp.image)
			if seen[hsh] {
				continue
			}
			seen[hsh] = true
			rdisk = simdisk.FromImage(cp.image)
			db = rdisk
		} else {
			bf, bdb := openBolt(e, cp.boltCopy)
			db = bdb
			defer func() { bdb.Cancel(); bf.bdb.Close() }()
		}
		checked++
		e.Step()
		e.Fault("crash-reopen")
		if cp.inReorg {
			e.Probe("reopened_mid_reorg_image")
			e.Nontrivial = true
		}
		label := fmt.Sprintf("commit %d (batch %d, mid-call=%v, by-store=%v)", cp.seq, cp.batch, cp.midBatch, cp.inReorg)

		var rsut *chainSUT
		var err error
		e.Guard("C03.panic", "NewDBStore(reopen)", func() {
			dbs, tip, err2 := chain.NewDBStore(db, net.Network, net.Genesis, nil)
			err = err2
			if err2 == nil {
				rrs := &recStore{DBStore: dbs}
				rsut = &chainSUT{net: net, db: db, disk: rdisk, store: rrs, cm: chain.NewManager(rrs, tip)}
			}
		})
		if err != nil {
			e.Violationf("C03.reopen", "reopen-error", "%s: reopening the committed image failed: %v", label, err)
		}
		// a tip the node really had, up to the moment of the commit
		rtip := rsut.cm.Tip()
		had := false
		for _, idx := range tipLog[:cp.tipLogN+1] {
			if idx == rtip {
				had = true
			}
		}
		if !had {
			e.Violationf("C03.tip-was-held", "never-held", "%s: reopened tip %v is not a tip the node had before that commit", label, rtip)
		}
		if want := tipLog[cp.tipLogN]; want != rtip {
			e.Violationf("C03.tip-was-held", "not-latest", "%s: reopened tip %v, but the node's tip at the commit was %v", label, rtip, want)
		}
		// mutually consistent for that tip
		var tipNode *gen.Node
		e.Guard("C03.panic", "audit(reopen)", func() { tipNode = auditBestChain(e, "C03", rsut, tree) })
		for _, n := range tipNode.PathFromGenesis() {
			if _, bs, ok := rsut.store.Block(n.ID); !ok || bs == nil {
				e.Violationf("C03.supplement-present", "no-supplement", "%s: best-chain block %s has no stored block/supplement (ok=%v)", label, n.Describe(), ok)
			}
		}
		var got view
		e.Guard("C03.panic", "view(reopen)", func() { got = takeView(rsut, true) })
		want := takeView(twin.at(e, tree, tipNode), true)
		if what, ok := want.equal(got); !ok {
			e.Violationf("C03.image-consistent", "differs:"+what, "%s: the reopened node serves a different %s than a linear node at the same tip %s: %s", label, what, tipNode.Describe(), diffDetail(got, want))
		}
		e.Guard("C03.panic", "ledger(reopen)", func() { compareWithLedger(e, "C03", rsut, tipNode) })

		// catch up: everything from the batch that was in progress
		from := cp.batch
		if !cp.midBatch {
			from = cp.batch + 1
		}
		if cp.seq == 0 {
			from = 0
		}
		for _, batch := range plan[min(from, len(plan)):] {
			if len(batch) == 0 {
				continue
			}
			e.Guard("C03.panic", "AddBlocks(catch-up)", func() { rsut.cm.AddBlocks(blocksOf(batch)) })
		}
		e.Guard("C03.panic", "AddBlocks(catch-up)", func() { rsut.cm.AddBlocks(blocksOf(dominant.PathFromGenesis()[1:])) })
		e.Guard("C03.panic", "audit(catch-up)", func() { auditBestChain(e, "C03", rsut, tree) })
		end := takeView(rsut, false)
		if what, ok := final.equal(end); !ok {
			e.Violationf("C03.catch-up", "differs:"+what, "%s: after re-submitting the remaining blocks the reopened node ends with a different %s than the uninterrupted run (tip %v vs %v)", label, what, end.Tip, final.Tip)
		}
		e.Shape("img", fmt.Sprint(cp.inReorg), bucket(int(tipNode.Height)), regime(net, tipNode.Height))
	}
	e.Probes["images_reopened"] += checked
	if checked > 1 {
		e.Nontrivial = true
	}
}

func init() {
	register(&Prop{
		ID: "C03", Run: runC03, Quick: 900, Thorough: 8000, Level: "fault_enumeration",
		Rule:        "one run = one sampled history (network, fork tree with all transaction kinds, corrupted twins, submission plan, ending on a chain made dominant) executed with simulated clock jumps >= 5 s between drawn ApplyBlock/RevertBlock calls (so the store's own time-based flush commits inside reorgs) and optionally one injected I/O error; EVERY distinct committed image of that history (simdisk: content-hashed images at each Flush, in 1 of 3 of those runs underneath chain.NewCacheDB; 1 run in 8: real bbolt, file copy after each commit, first 10) is reopened and checked: opens without error, tip is the tip held at that commit, C01 audit, every best-chain supplement present, served view == linear twin and reference ledger, then the remaining plan is re-submitted and the final view must equal the uninterrupted run's; distinct = abstract trace of (mid-reorg?, height bucket, regime) per image; non-trivial = at least two images or one image committed by the store between two applies/reverts",
		Real:        []string{"chain.Manager", "chain.DBStore", "coreutils.BoltChainDB + bbolt (1 run in 8)"},
		Stub:        []string{"disk: simdisk.DB with explicit committed image / pending overlay (7 runs in 8)"},
		Assumptions: []string{"the size-based flush trigger (100 MB) is not reached at simulation scale; the time-based trigger exercises the same commit site", "bbolt commit atomicity is trusted", "a process stop loses exactly the writes since the last successful chain.DB.Flush"},
	})
}
