package props

import (
	"bytes"
	"fmt"
	"sort"
	"time"

	"go.sia.tech/core/consensus"
	"go.sia.tech/core/types"
	"go.sia.tech/coreutils/chain"

	"verif/gen"
	"verif/sim"
	"verif/simdisk"
)

// expiryModel is the documented discipline of the per-height expiring
// contract lists (append on create, swap-remove on removal, prepend on
// revert), fed with exactly the updates the node under test applied and
// reverted. It exists only to tell the known history dependence of those
// lists (F-C02-1) apart from any other deviation.
type expiryModel struct {
	lists   map[uint64][]types.FileContractID
	require uint64
}

func (m *expiryModel) remove(id types.FileContractID, h uint64) {
	l := m.lists[h]
	for i := range l {
		if l[i] == id {
			l[i] = l[len(l)-1]
			m.lists[h] = l[:len(l)-1]
			return
		}
	}
}

func (m *expiryModel) apply(cs consensus.State, cau consensus.ApplyUpdate) {
	if cs.Index.Height > m.require {
		return
	}
	for _, d := range cau.FileContractElementDiffs() {
		fce := d.FileContractElement
		switch {
		case d.Created && d.Resolved:
		case d.Resolved:
			m.remove(fce.ID, fce.FileContract.WindowEnd)
		case d.Revision != nil:
			if d.Revision.WindowEnd != fce.FileContract.WindowEnd {
				m.remove(fce.ID, fce.FileContract.WindowEnd)
				m.lists[d.Revision.WindowEnd] = append(m.lists[d.Revision.WindowEnd], fce.ID)
			}
		default:
			m.lists[fce.FileContract.WindowEnd] = append(m.lists[fce.FileContract.WindowEnd], fce.ID)
		}
	}
}

func (m *expiryModel) revert(cs consensus.State, cru consensus.RevertUpdate) {
	if cs.Index.Height > m.require {
		return
	}
	prepend := func(h uint64, id types.FileContractID) {
		m.lists[h] = append([]types.FileContractID{id}, m.lists[h]...)
	}
	for _, d := range cru.FileContractElementDiffs() {
		fce := d.FileContractElement
		switch {
		case d.Created && d.Resolved:
		case d.Resolved:
			prepend(fce.FileContract.WindowEnd, fce.ID)
		case d.Revision != nil:
			if d.Revision.WindowEnd != fce.FileContract.WindowEnd {
				m.remove(fce.ID, d.Revision.WindowEnd)
				prepend(fce.FileContract.WindowEnd, fce.ID)
			}
		default:
			m.remove(fce.ID, fce.FileContract.WindowEnd)
		}
	}
}

// c02Store additionally feeds the expiry model.
type c02Store struct {
	*recStore
	model *expiryModel
	e     *sim.Env
	tree  *gen.Tree
	// consumedOutOfOrder: a block was applied while the expiring list of its
	// height - although it follows the documented discipline - had another
	// order than on a linear node (F-C02-1 showing in supplements / states
	// instead of in a list that is still there to look at)
	consumedOutOfOrder string
}

func (s *c02Store) ApplyBlock(cs consensus.State, cau consensus.ApplyUpdate) {
	h := cs.Index.Height
	if h <= s.model.require && h > 0 {
		sut := s.recStore.DBStore.ExpiringFileContractIDs(h)
		if fmt.Sprint(sut) != fmt.Sprint(s.model.lists[h]) && !(len(sut) == 0 && len(s.model.lists[h]) == 0) {
			s.e.Violationf("C02.expiry-discipline", "list-vs-discipline", "when block %v is applied the expiring list of its height is %v, the documented discipline (append / swap-remove / prepend on revert) yields %v", cs.Index, sut, s.model.lists[h])
		}
		if n, ok := s.tree.ByID[cs.Index.ID]; ok && n.Parent != nil && n.Parent.Valid() {
			lin := n.Parent.L.Expiring[h]
			if len(lin) == len(sut) && fmt.Sprint(lin) != fmt.Sprint(sut) {
				a, b := make([]string, len(lin)), make([]string, len(sut))
				for i := range lin {
					a[i], b[i] = lin[i].String(), sut[i].String()
				}
				sort.Strings(a)
				sort.Strings(b)
				if fmt.Sprint(a) == fmt.Sprint(b) && s.consumedOutOfOrder == "" {
					s.consumedOutOfOrder = fmt.Sprintf("block %v applied with expiring list %v, a linear node has %v", cs.Index, sut, lin)
				}
			}
		}
	}
	s.recStore.ApplyBlock(cs, cau)
	s.model.apply(cs, cau)
}

func (s *c02Store) RevertBlock(cs consensus.State, cru consensus.RevertUpdate) {
	s.recStore.RevertBlock(cs, cru)
	s.model.revert(cs, cru)
}

// linearTwin is a node that only ever sees one chain, block by block.
type linearTwin struct {
	net  *gen.Net
	s    *chainSUT
	tip  *gen.Node
	made int
}

// at returns a twin positioned at node n (extending the current one when n
// is a descendant of its tip, rebuilding from genesis otherwise).
func (t *linearTwin) at(e *sim.Env, tree *gen.Tree, n *gen.Node) *chainSUT {
	if t.s == nil || !t.tip.IsAncestorOf(n) {
		t.s = newChainSUT(e, t.net, simdisk.New())
		t.tip = tree.Genesis
		t.made++
	}
	path := n.PathFromGenesis()
	for _, x := range path[t.tip.Height+1:] {
		var err error
		e.Guard("C02.panic", "linear AddBlocks", func() { err = t.s.cm.AddBlocks([]types.Block{x.Block}) })
		if err != nil {
			e.Violationf("C02.linear-node", "linear-rejects", "a node fed the valid chain linearly rejected block %s: %v", x.Describe(), err)
		}
		if t.s.cm.Tip() != x.Index() {
			e.Violationf("C02.linear-node", "linear-no-advance", "a node fed the valid chain linearly did not advance to %s (tip %v)", x.Describe(), t.s.cm.Tip())
		}
		t.tip = x
	}
	return t.s
}

// compareWithLedger checks the element buckets and the proofs the store hands
// out against the reference ledger.
func compareWithLedger(e *sim.Env, inv string, s *chainSUT, tipNode *gen.Node) {
	net := s.net
	h := tipNode.Height
	ref := tipNode
	if h > net.Require() {
		ref = tipNode.Ancestor(net.Require())
	}
	if ref == nil {
		return
	}
	l := ref.L
	// siacoin elements
	sc := s.dump("SiacoinElements")
	if len(sc) != len(l.SC) {
		e.Violationf(inv+".elements-vs-ledger", "siacoin-count", "store holds %d siacoin elements, the ledger of %s has %d", len(sc), ref.Describe(), len(l.SC))
	}
	for id, el := range l.SC {
		want := el.Copy()
		want.StateElement.MerkleProof = nil
		if got, ok := sc[string(id[:])]; !ok || !bytes.Equal(got, gen.Enc(want)) {
			e.Violationf(inv+".elements-vs-ledger", "siacoin-element", "siacoin element %v: store has %x, ledger %x", id, got, gen.Enc(want))
		}
	}
	sf := s.dump("SiafundElements")
	if len(sf) != len(l.SF) {
		e.Violationf(inv+".elements-vs-ledger", "siafund-count", "store holds %d siafund elements, ledger %d", len(sf), len(l.SF))
	}
	for id, el := range l.SF {
		want := el.Copy()
		want.StateElement.MerkleProof = nil
		if got, ok := sf[string(id[:])]; !ok || !bytes.Equal(got, gen.Enc(want)) {
			e.Violationf(inv+".elements-vs-ledger", "siafund-element", "siafund element %v differs from the ledger", id)
		}
	}
	fc := s.dump("FileContracts")
	nfc := 0
	for k := range fc {
		if len(k) == 32 {
			nfc++
		}
	}
	if nfc != len(l.FC) {
		e.Violationf(inv+".elements-vs-ledger", "contract-count", "store holds %d v1 contracts, ledger %d", nfc, len(l.FC))
	}
	for id, el := range l.FC {
		want := el.Copy()
		want.StateElement.MerkleProof = nil
		if got, ok := fc[string(id[:])]; !ok || !bytes.Equal(got, gen.Enc(want)) {
			e.Violationf(inv+".elements-vs-ledger", "contract-element", "v1 contract %v differs from the ledger", id)
		}
	}
	if h >= net.Require() {
		return
	}
	// proofs: ask the store to supplement a transaction referencing live
	// elements and compare with the ledger's proofs (which the ledger
	// verified against the accumulator when it used them)
	var probe types.Transaction
	for i, id := range l.SCIDs() {
		if i%3 == int(h%3) || len(l.SC) < 12 {
			probe.SiacoinInputs = append(probe.SiacoinInputs, types.SiacoinInput{ParentID: id})
		}
	}
	for _, id := range l.SFIDs() {
		probe.SiafundInputs = append(probe.SiafundInputs, types.SiafundInput{ParentID: id})
	}
	for _, id := range l.FCIDs() {
		probe.FileContractRevisions = append(probe.FileContractRevisions, types.FileContractRevision{ParentID: id})
	}
	var ts consensus.V1TransactionSupplement
	e.Guard(inv+".panic", "SupplementTipTransaction", func() { ts = s.store.SupplementTipTransaction(probe) })
	if len(ts.SiacoinInputs) != len(probe.SiacoinInputs) || len(ts.SiafundInputs) != len(probe.SiafundInputs) || len(ts.RevisedFileContracts) != len(probe.FileContractRevisions) {
		e.Violationf(inv+".supplement", "supplement-missing", "SupplementTipTransaction returned %d/%d/%d elements for %d/%d/%d live inputs",
			len(ts.SiacoinInputs), len(ts.SiafundInputs), len(ts.RevisedFileContracts), len(probe.SiacoinInputs), len(probe.SiafundInputs), len(probe.FileContractRevisions))
	}
	for _, got := range ts.SiacoinInputs {
		if want := l.SC[got.ID]; !bytes.Equal(gen.Enc(got), gen.Enc(want)) {
			e.Violationf(inv+".proofs", "siacoin-proof", "siacoin element %v: proof handed out differs from the ledger's (leaf %d vs %d, %d vs %d hashes)", got.ID, got.StateElement.LeafIndex, want.StateElement.LeafIndex, len(got.StateElement.MerkleProof), len(want.StateElement.MerkleProof))
		}
	}
	for _, got := range ts.SiafundInputs {
		if want := l.SF[got.ID]; !bytes.Equal(gen.Enc(got), gen.Enc(want)) {
			e.Violationf(inv+".proofs", "siafund-proof", "siafund element %v: proof differs from the ledger's", got.ID)
		}
	}
	for _, got := range ts.RevisedFileContracts {
		if want := l.FC[got.ID]; !bytes.Equal(gen.Enc(got), gen.Enc(want)) {
			e.Violationf(inv+".proofs", "contract-proof", "v1 contract %v: proof differs from the ledger's", got.ID)
		}
	}
	// the proofs must verify against the tip accumulator (independent of the ledger)
	var v2 types.V2Transaction
	for _, el := range ts.SiacoinInputs {
		v2.SiacoinInputs = append(v2.SiacoinInputs, types.V2SiacoinInput{Parent: el.Copy()})
	}
	for _, el := range ts.SiafundInputs {
		v2.SiafundInputs = append(v2.SiafundInputs, types.V2SiafundInput{Parent: el.Copy()})
	}
	ts2 := s.cm.TipState()
	if err := ts2.Elements.ValidateTransactionElements(v2); err != nil {
		e.Violationf(inv+".proofs", "proof-invalid", "a proof handed out by the store does not verify against the tip accumulator: %v", err)
	}
	// block supplement for an empty child: the expiring contracts in ledger order
	child := types.Block{ParentID: tipNode.ID}
	var bs consensus.V1BlockSupplement
	e.Guard(inv+".panic", "SupplementTipBlock", func() { bs = s.store.SupplementTipBlock(child) })
	want := tipNode.L.BlockSupplement(child)
	if len(bs.ExpiringFileContracts) != len(want.ExpiringFileContracts) {
		e.Violationf(inv+".supplement", "expiring-count", "SupplementTipBlock lists %d expiring contracts, the ledger %d", len(bs.ExpiringFileContracts), len(want.ExpiringFileContracts))
	}
	for i := range bs.ExpiringFileContracts {
		if !bytes.Equal(gen.Enc(bs.ExpiringFileContracts[i]), gen.Enc(want.ExpiringFileContracts[i])) {
			e.Violationf(inv+".supplement", "expiring-element", "SupplementTipBlock expiring contract %d differs from the ledger's", i)
		}
	}
}

func runC02(e *sim.Env) {
	now := time.Now()
	net := gen.NewNet(e, now, gen.NetOpts{MaxHeight: 100})
	tree := gen.NewTree(net)
	stress := e.Chance(1, 5) && net.Regime != "v2"
	e.Shape("net", net.Regime, fmt.Sprint(stress))

	disk := simdisk.New()
	dbs, tipState, err := chain.NewDBStore(disk, net.Network, net.Genesis, nil)
	if err != nil {
		e.Violationf("C02.open", "NewDBStore", "NewDBStore failed: %v", err)
	}
	model := &expiryModel{lists: map[uint64][]types.FileContractID{}, require: net.Require()}
	rs := &recStore{DBStore: dbs}
	st := &c02Store{recStore: rs, model: model, e: e, tree: tree}
	s := &chainSUT{net: net, db: disk, disk: disk, store: rs, cm: chain.NewManager(st, tipState)}

	mix := gen.FullMix
	if stress {
		mix.FCForm, mix.FCProof, mix.FCRevise = 10, 8, 6
	}
	// 1 run in 5 between the hardfork heights: blocks of a single transaction,
	// mostly v2 contract formations and (often input-less) revisions, so that
	// blocks whose only updated leaves are v2 contracts get applied and reverted
	// while the store still tracks v1 elements
	maxTx := e.Range(1, 6)
	if !stress && net.Regime == "overlap" && e.Chance(1, 5) {
		mix = gen.TxMix{Pay: 1, V2Pay: 2, V2Form: 6, V2Revise: 14, V2Renew: 1}
		maxTx = 1
		e.Shape("v2-contract-blocks")
	}
	tree.Grow(e, gen.GrowOpts{
		Blocks:    e.Range(6, 40),
		Corrupt:   e.Range(0, 2),
		MinerPool: []types.Address{types.VoidAddress, net.Actors[0].Addr},
		LongFork:  true,
		Block:     gen.BlockOpts{Mix: mix, MaxTx: maxTx, OrderSafe: !stress, Now: now, Strict: genStrict},
	})
	plan := makePlan(e, tree)
	twin := &linearTwin{net: net}
	firstSeen := map[types.BlockID]view{}
	tip := tree.Genesis
	for _, batch := range plan {
		if len(batch) == 0 {
			continue
		}
		e.Step()
		var err error
		e.Guard("C02.panic", "AddBlocks", func() { err = s.cm.AddBlocks(blocksOf(batch)) })
		if st.consumedOutOfOrder != "" {
			e.Probe("known_expiry_order")
			e.Violationf("C02.expiry-order-history-dependent", "sut==discipline!=linear",
				"after a reorg the order of an expiring-contract list differs from a linear node's although it follows the documented discipline, and the list was consumed in that order: %s", st.consumedOutOfOrder)
		}
		newTip := auditBestChain(e, "C02", s, tree)
		e.Logf("AddBlocks(%d, last %s) -> err=%v tip %s", len(batch), batch[len(batch)-1].Describe(), err != nil, newTip.Describe())
		moved := newTip != tip
		if moved {
			fork := gen.CommonAncestor(tip, newTip)
			depth := int(tip.Height - fork.Height)
			e.Shape("reorg", bucket(depth), regime(net, fork.Height), regime(net, newTip.Height))
			if depth > 0 {
				e.Nontrivial = true
				e.Probe("reorg_with_revert")
				if fork.Height < net.Require() && tip.Height >= net.Require() {
					e.Probe("reorg_crossing_require_height")
				}
				if fork.Height < net.Allow() && tip.Height >= net.Allow() {
					e.Probe("reorg_crossing_allow_height")
				}
			}
		}
		tip = newTip

		// the documented list discipline, fed with what the node really did
		got := takeView(s, true)
		for h := uint64(0); h <= tip.Height+12; h++ {
			ids := s.store.ExpiringFileContractIDs(h)
			if fmt.Sprint(ids) != fmt.Sprint(model.lists[h]) && !(len(ids) == 0 && len(model.lists[h]) == 0) {
				e.Violationf("C02.expiry-discipline", "list-vs-discipline", "expiring list at height %d is %v, the documented discipline (append / swap-remove / prepend on revert) yields %v", h, ids, model.lists[h])
			}
		}
		// the linear twin
		tw := twin.at(e, tree, tip)
		want := takeView(tw, true)
		if what, ok := want.equal(got); !ok {
			if what == "expiring contract lists" || stress {
				// is it only the order of a list?
				if onlyExpiryOrder(s, tw, tip.Height+12) {
					e.Probe("known_expiry_order")
					e.Violationf("C02.expiry-order-history-dependent", "sut==discipline!=linear",
						"after a reorg the order of an expiring-contract list differs from a linear node's although it follows the documented discipline: %s", diffDetail(got, want))
				}
			}
			e.Violationf("C02.history-independent", "differs:"+what, "the node serves a different %s than a node that saw only the best chain to %s: %s", what, tip.Describe(), diffDetail(got, want))
		}
		// apply-then-revert symmetry
		if fs, ok := firstSeen[tip.ID]; ok {
			if what, ok := fs.equal(got); !ok {
				e.Violationf("C02.revert-restores", "differs:"+what, "back at tip %s the node serves a different %s than the first time", tip.Describe(), what)
			}
			if moved {
				e.Probe("tip_revisited")
			}
		} else {
			firstSeen[tip.ID] = got
		}
		// the ledger
		compareWithLedger(e, "C02", s, tip)
		if e.Chance(1, 12) {
			time.Sleep(time.Duration(e.Range(1, 20)) * time.Second)
		}
	}
	e.Probes["linear_twins_built"] += twin.made

	// stores initialised from a v2 checkpoint: one sees every submitted block
	// that descends from the checkpoint, in submission order (forks and reorgs
	// above it included), the other only the path to where the first ended
	if lo := net.Require() + 1; tip.Height > lo+1 && e.Chance(1, 2) {
		cp := tip.Ancestor(uint64(e.Range(int(lo), int(tip.Height)-1)))
		if cp.Block.V2 != nil && cp.Valid() && cp.Parent != nil {
			open := func() *chainSUT {
				d := simdisk.New()
				var cdbs *chain.DBStore
				var cts consensus.State
				var cerr error
				e.Guard("C02.panic", "NewDBStoreAtCheckpoint", func() { cdbs, cts, cerr = chain.NewDBStoreAtCheckpoint(d, cp.Parent.L.State, cp.Block, nil) })
				if cerr != nil {
					e.Violationf("C02.checkpoint-store", "open", "NewDBStoreAtCheckpoint(%s) failed: %v", cp.Describe(), cerr)
				}
				if cts.Index != cp.Index() || !bytes.Equal(gen.StateBytes(cts), gen.StateBytes(cp.L.State)) {
					e.Violationf("C02.checkpoint-store", "initial-state", "a store opened at checkpoint %s reports tip %v / a state that differs from the reference: %s", cp.Describe(), cts.Index, stateDiff(cts, cp.L.State))
				}
				crs := &recStore{DBStore: cdbs}
				return &chainSUT{net: net, db: d, disk: d, store: crs, cm: chain.NewManager(crs, cts)}
			}
			a := open()
			for _, batch := range plan {
				var sub []*gen.Node
				for _, n := range batch {
					if n != cp && n.Height > cp.Height && cp.IsAncestorOf(n) {
						sub = append(sub, n)
					}
				}
				if len(sub) > 0 {
					e.Guard("C02.panic", "AddBlocks (checkpoint store)", func() { a.cm.AddBlocks(blocksOf(sub)) })
				}
			}
			at, ok := tree.ByID[a.cm.Tip().ID]
			if !ok || !at.Valid() || !cp.IsAncestorOf(at) {
				e.Violationf("C02.checkpoint-store", "tip", "a store opened at checkpoint %s ended on %v, which is not a valid descendant of the checkpoint", cp.Describe(), a.cm.Tip())
			}
			if ts := a.cm.TipState(); !bytes.Equal(gen.StateBytes(ts), gen.StateBytes(at.L.State)) {
				e.Violationf("C02.checkpoint-store", "tip-state", "checkpoint store at %s: tip state differs from independent replay: %s", at.Describe(), stateDiff(ts, at.L.State))
			}
			b := open()
			if at != cp {
				var path []*gen.Node
				for _, n := range at.PathFromGenesis() {
					if n.Height > cp.Height {
						path = append(path, n)
					}
				}
				var lerr error
				e.Guard("C02.panic", "AddBlocks (linear checkpoint store)", func() { lerr = b.cm.AddBlocks(blocksOf(path)) })
				if lerr != nil {
					e.Violationf("C02.checkpoint-store", "linear-rejected", "a checkpoint store rejected the valid chain %s -> %s: %v", cp.Describe(), at.Describe(), lerr)
				}
			}
			va, vb := takeView(a, true), takeView(b, true)
			if what, ok := vb.equal(va); !ok {
				e.Violationf("C02.history-independent", "checkpoint-store:"+what, "a checkpoint store that saw forks above its checkpoint %s serves a different %s at %s than one that saw only the best chain: %s", cp.Describe(), what, at.Describe(), diffDetail(va, vb))
			}
			if a.store.reverts > 0 {
				e.Probe("checkpoint_store_reorged")
			}
			e.Probe("checkpoint_store_compared")
		}
	}
}

// onlyExpiryOrder reports whether the two nodes differ in nothing but the
// order of ids inside expiring lists.
func onlyExpiryOrder(a, b *chainSUT, maxH uint64) bool {
	differs := false
	for h := uint64(0); h <= maxH; h++ {
		x, y := a.store.ExpiringFileContractIDs(h), b.store.ExpiringFileContractIDs(h)
		if len(x) != len(y) {
			return false
		}
		if fmt.Sprint(x) != fmt.Sprint(y) {
			differs = true
		}
		sx := make([]string, len(x))
		sy := make([]string, len(y))
		for i := range x {
			sx[i], sy[i] = x[i].String(), y[i].String()
		}
		sort.Strings(sx)
		sort.Strings(sy)
		if fmt.Sprint(sx) != fmt.Sprint(sy) {
			return false
		}
	}
	if !differs {
		return false
	}
	va, vb := takeView(a, false), takeView(b, false)
	va.Expiring, vb.Expiring = [32]byte{}, [32]byte{}
	_, same := va.equal(vb)
	return same
}

func init() {
	register(&Prop{
		ID: "C02", Run: runC02, Quick: 900, Thorough: 30000, Level: "exploration",
		Rule:        "one run = drawn network + fork tree with every element-changing transaction kind + submission plan as in C01; after every step the node's served view (tip state, best index, blocks+supplements, states, raw element buckets, expiring lists, MainChain bucket) is compared with a linear twin node, with the view recorded the first time that tip was reached, and with the reference ledger (elements, leaf indices, Merkle proofs, block supplement); in half of the runs that reach above the require height two stores are opened from a v2 checkpoint on the final chain (chain.NewDBStoreAtCheckpoint), one fed every submitted descendant of the checkpoint in submission order, one only the resulting best chain, and their views are compared; 80% of runs give every v1 contract a unique window end (order-safe), 20% stress several contracts per height; distinct = abstract trace (reorg depth bucket, regimes); non-trivial = at least one reorg reverting blocks",
		Real:        []string{"chain.Manager", "chain.DBStore (node under test and linear twin)"},
		Stub:        []string{"disk: simdisk.DB"},
		Assumptions: []string{"Tree-bucket nodes above the current leaf count are not compared (documented as never read); every proof the store can serve is compared instead", "the order of the expiring lists of a linear node is taken as the consensus-relevant truth"},
	})
}
