package props

import (
	"bytes"
	"errors"
	"fmt"
	"io"
	"os"
	"path/filepath"
	"sort"
	"time"

	"go.etcd.io/bbolt"
	"go.sia.tech/core/types"
	"go.sia.tech/coreutils"
	"go.sia.tech/coreutils/chain"

	"verif/gen"
	"verif/sim"
	"verif/simdisk"
)

// scratchDir returns a per-run directory on tmpfs for bolt files.
func scratchDir(e *sim.Env) string {
	base := "/dev/shm"
	if st, err := os.Stat(base); err != nil || !st.IsDir() {
		base = os.TempDir()
	}
	dir, err := os.MkdirTemp(base, fmt.Sprintf("verif-%d-", os.Getpid()))
	if err != nil {
		e.Infraf("cannot create a scratch directory: %v", err)
	}
	e.OnCleanup(func() { os.RemoveAll(dir) })
	return dir
}

// kvBackend is one chain.DB implementation under comparison.
type kvBackend struct {
	name  string
	db    chain.DB
	crash func() chain.DB // nil: backend has no durable medium of its own
	close func()
}

type boltFile struct {
	path string
	bdb  *bbolt.DB
}

func openBolt(e *sim.Env, path string) (*boltFile, *coreutils.BoltChainDB) {
	bdb, err := bbolt.Open(path, 0o600, &bbolt.Options{NoSync: true, NoFreelistSync: true})
	if err != nil {
		e.Infraf("bbolt.Open: %v", err)
	}
	return &boltFile{path, bdb}, coreutils.NewBoltChainDB(bdb)
}

// crashCopy simulates a process stop: bbolt writes pages only at commit, so a
// copy of the file taken now is exactly the last committed image.
func (bf *boltFile) crashCopy(e *sim.Env, n int) string {
	dst := fmt.Sprintf("%s.crash%d", bf.path, n)
	in, err := os.Open(bf.path)
	if err != nil {
		e.Infraf("crash copy: %v", err)
	}
	defer in.Close()
	out, err := os.Create(dst)
	if err != nil {
		e.Infraf("crash copy: %v", err)
	}
	if _, err := io.Copy(out, in); err != nil {
		e.Infraf("crash copy: %v", err)
	}
	out.Close()
	return dst
}

type kvOp struct {
	kind   string // create bucket get put delete iter flush cancel crash
	bucket int
	key    int
	val    int
}

func (o kvOp) String() string {
	switch o.kind {
	case "create":
		return fmt.Sprintf("create(b%d)", o.bucket)
	case "put":
		return fmt.Sprintf("put(b%d,k%d,v%d)", o.bucket, o.key, o.val)
	case "delete":
		return fmt.Sprintf("delete(b%d,k%d)", o.bucket, o.key)
	}
	return o.kind
}

var (
	kvBuckets = [][]byte{[]byte("b0"), []byte("b1")}
	kvKeys    = [][]byte{[]byte("k0"), []byte("k1"), []byte("k2")}
	kvVals    = [][]byte{[]byte("v0"), []byte("value-1")}
)

// kvAlphabet is the operation alphabet of the exhaustive base.
func kvAlphabet() []kvOp {
	var ops []kvOp
	for b := range kvBuckets {
		ops = append(ops, kvOp{kind: "create", bucket: b})
		for k := range kvKeys {
			for v := range kvVals {
				ops = append(ops, kvOp{kind: "put", bucket: b, key: k, val: v})
			}
			ops = append(ops, kvOp{kind: "delete", bucket: b, key: k})
		}
	}
	ops = append(ops, kvOp{kind: "flush"}, kvOp{kind: "cancel"})
	return ops
}

// observe reads everything the interface lets a caller see.
func kvObserve(db chain.DB) string {
	var buf bytes.Buffer
	for bi, bn := range kvBuckets {
		b := db.Bucket(bn)
		if b == nil {
			fmt.Fprintf(&buf, "b%d:absent;", bi)
			continue
		}
		fmt.Fprintf(&buf, "b%d:get[", bi)
		for ki, k := range kvKeys {
			if v := b.Get(k); len(v) > 0 {
				fmt.Fprintf(&buf, "k%d=%s,", ki, v)
			}
		}
		buf.WriteString("]iter[")
		var items []string
		for k, v := range b.Iter() {
			items = append(items, fmt.Sprintf("%s=%s", k, v))
		}
		sort.Strings(items)
		for i := 1; i < len(items); i++ {
			if items[i] == items[i-1] {
				items[i] += "(dup)"
			}
		}
		for _, it := range items {
			buf.WriteString(it + ",")
		}
		buf.WriteString("];")
	}
	return buf.String()
}

// kvApply performs op on db; the returned string is the operation's own result.
func kvApply(db chain.DB, op kvOp) string {
	switch op.kind {
	case "create":
		_, err := db.CreateBucket(kvBuckets[op.bucket])
		return fmt.Sprint("err=", err != nil)
	case "put":
		b := db.Bucket(kvBuckets[op.bucket])
		if b == nil {
			return "nobucket"
		}
		return fmt.Sprint("err=", b.Put(kvKeys[op.key], kvVals[op.val]) != nil)
	case "delete":
		b := db.Bucket(kvBuckets[op.bucket])
		if b == nil {
			return "nobucket"
		}
		return fmt.Sprint("err=", b.Delete(kvKeys[op.key]) != nil)
	case "flush":
		return fmt.Sprint("err=", db.Flush() != nil)
	case "cancel":
		db.Cancel()
		return ""
	}
	panic("kvApply: " + op.kind)
}

func runKVSequence(e *sim.Env, ops []kvOp, backends []*kvBackend, label string) {
	model := simdisk.New()
	var hist []string
	for i, op := range ops {
		e.Step()
		if op.kind == "crash" {
			model.Crash()
			for _, be := range backends {
				if be.crash != nil {
					be.db = be.crash()
				} else {
					be.db.Cancel() // no durable medium: a stop loses exactly the unflushed part
				}
			}
			e.Fault("crash")
		}
		var want string
		if op.kind != "crash" {
			want = kvApply(model, op)
		}
		hist = append(hist, op.String())
		wantObs := kvObserve(model)
		for _, be := range backends {
			var got, gotObs string
			e.Guard("C17.panic", be.name+"."+op.kind, func() {
				if op.kind != "crash" {
					got = kvApply(be.db, op)
				}
				gotObs = kvObserve(be.db)
			})
			if got != want {
				e.Violationf("C17.op-result", be.name+":"+op.kind, "%s: after %v the operation %s returned %q on %s, the model says %q", label, hist[:i], op, got, be.name, want)
			}
			if gotObs != wantObs {
				e.Violationf("C17.read-your-writes", be.name+":"+kvDiffKind(gotObs, wantObs), "%s: after %v\n  %s serves %s\n  model says   %s", label, hist, be.name, gotObs, wantObs)
			}
		}
	}
}

// kvDiffKind classifies a mismatch (get vs iter) for the signature.
func kvDiffKind(got, want string) string {
	g := bytes.Split([]byte(got), []byte("iter["))
	w := bytes.Split([]byte(want), []byte("iter["))
	if len(g) != len(w) {
		return "bucket-existence"
	}
	getDiff, iterDiff := false, false
	for i := range g {
		gs, ws := g[i], w[i]
		// each piece is "<iter part>];bN:get[<get part>]" (first piece has no iter part)
		gi, gg, _ := bytes.Cut(gs, []byte("];"))
		wi, wg, _ := bytes.Cut(ws, []byte("];"))
		if i == 0 {
			gg, wg = gs, ws
			gi, wi = nil, nil
		}
		if !bytes.Equal(gi, wi) {
			iterDiff = true
		}
		if !bytes.Equal(gg, wg) {
			getDiff = true
		}
	}
	switch {
	case getDiff && iterDiff:
		return "get+iter"
	case getDiff:
		return "get"
	}
	return "iter"
}

func newKVBackends(e *sim.Env, withBolt bool) []*kvBackend {
	bes := []*kvBackend{
		{name: "MemDB", db: chain.NewMemDB()},
		{name: "CacheDB(MemDB)", db: chain.NewCacheDB(chain.NewMemDB())},
		{name: "CacheDB(simdisk)", db: chain.NewCacheDB(simdisk.New())},
	}
	if withBolt {
		dir := scratchDir(e)
		for _, cached := range []bool{false, true} {
			name := "Bolt"
			if cached {
				name = "CacheDB(Bolt)"
			}
			bf, bdb := openBolt(e, filepath.Join(dir, name+".db"))
			be := &kvBackend{name: name}
			cur := bf
			raw := bdb // the Bolt wrapper itself: its Cancel ends any transaction left open
			if cached {
				be.db = chain.NewCacheDB(bdb)
			} else {
				be.db = bdb
			}
			n := 0
			be.crash = func() chain.DB {
				n++
				cp := cur.crashCopy(e, n)
				be.db.Cancel()
				raw.Cancel()
				cur.bdb.Close()
				nbf, nbdb := openBolt(e, cp)
				cur, raw = nbf, nbdb
				if cached {
					return chain.NewCacheDB(nbdb)
				}
				return nbdb
			}
			e.OnCleanup(func() { be.db.Cancel(); raw.Cancel(); cur.bdb.Close() })
			bes = append(bes, be)
		}
	}
	return bes
}

const kvParts = 96 // the exhaustive base is split over the first kvParts runs

func runC17(e *sim.Env) {
	alpha := kvAlphabet()
	switch {
	case e.Index < kvParts:
		// exhaustive base: every sequence of length <= 4 over the alphabet whose
		// first two operations fall into this partition, on the in-memory
		// backends; every sequence of length <= 2 (plus partition-selected
		// length 3) on bolt as well
		e.Shape("exhaustive")
		e.Nontrivial = true
		part := int(e.Index)
		n := len(alpha)
		seqs := 0
		var rec func(prefix []kvOp, depth int)
		rec = func(prefix []kvOp, depth int) {
			if len(prefix) > 0 {
				withBolt := len(prefix) <= 2 || (len(prefix) == 3 && (prefix[2].kind == "flush" || prefix[2].kind == "cancel"))
				bes := newKVBackends(e, withBolt)
				runKVSequence(e, prefix, bes, "exhaustive")
				for _, be := range bes {
					if be.close != nil {
						be.close()
					}
				}
				seqs++
			}
			if depth == 0 {
				return
			}
			for i, op := range alpha {
				if len(prefix) == 1 {
					// partition on the first two operations
					idx := indexOf(alpha, prefix[0])*n + i
					if idx%kvParts != part {
						continue
					}
				}
				rec(append(append([]kvOp(nil), prefix...), op), depth-1)
			}
		}
		rec(nil, 4)
		e.Probes["exhaustive_sequences"] += seqs
		e.Logf("exhaustive partition %d/%d: %d sequences", part, kvParts, seqs)
	case e.Chance(1, 3):
		runC17Chain(e)
	case e.Chance(1, 4):
		runC17RefusedWrites(e)
	default:
		// seeded longer sequences with crash/reopen on every backend
		e.Nontrivial = true
		bes := newKVBackends(e, true)
		n := e.Range(5, 200)
		ops := make([]kvOp, 0, n)
		for i := 0; i < n; i++ {
			switch e.Pick(20, 1, 1) {
			case 0:
				ops = append(ops, alpha[e.Intn(len(alpha))])
			case 1:
				ops = append(ops, kvOp{kind: "crash"})
			case 2:
				ops = append(ops, kvOp{kind: "flush"})
			}
		}
		e.Shape("random", bucket(n))
		runKVSequence(e, ops, bes, "random")
	}
}

// runC17RefusedWrites drives the write-caching wrapper over a disk that, for a
// while, refuses every write to one bucket: a flush that reports an error has
// made nothing durable, reads keep reflecting the session's writes, cancel
// discards exactly the unflushed ones (the refused flush's included), and
// once the disk accepts writes again a flush makes durable what the session
// holds then - nothing of what was cancelled before.
func runC17RefusedWrites(e *sim.Env) {
	e.Shape("refused-writes")
	e.Nontrivial = true
	alpha := kvAlphabet()
	disk := simdisk.New()
	db := chain.NewCacheDB(disk)
	model := simdisk.New()
	refusing := ""
	disk.FaultAt = func(op, b string) error {
		if refusing != "" && b == refusing {
			return errors.New("verif: write refused")
		}
		return nil
	}
	var hist []string
	n := e.Range(8, 60)
	for i := 0; i < n; i++ {
		e.Step()
		var op kvOp
		switch e.Pick(12, 3, 2, 2, 1) {
		case 0:
			op = alpha[e.Intn(len(alpha))]
		case 1:
			op = kvOp{kind: "flush"}
		case 2:
			op = kvOp{kind: "cancel"}
		case 3:
			// the disk starts / stops refusing writes to one bucket
			if refusing == "" {
				refusing = string(kvBuckets[e.Intn(len(kvBuckets))])
				e.Fault("disk-refuses-writes-to-a-bucket")
			} else {
				refusing = ""
			}
			hist = append(hist, "refusing="+refusing)
			continue
		case 4:
			// a stop: only what the disk has committed survives
			model.Crash()
			disk.Crash()
			db = chain.NewCacheDB(disk)
			hist = append(hist, "crash")
			e.Fault("crash")
			if got, want := kvObserve(db), kvObserve(model); got != want {
				e.Violationf("C17.read-your-writes", "CacheDB(simdisk):after-crash", "refused writes: after %v\n  CacheDB(simdisk) serves %s\n  model says   %s", hist, got, want)
			}
			continue
		}
		var got string
		e.Guard("C17.panic", "CacheDB(simdisk)."+op.kind, func() { got = kvApply(db, op) })
		hist = append(hist, op.String()+"->"+got)
		switch {
		case op.kind == "flush" && got == "err=true":
			// nothing was made durable; the session goes on
			if refusing == "" {
				e.Violationf("C17.op-result", "CacheDB(simdisk):flush", "refused writes: Flush returned an error although the disk accepts every write: %v", hist)
			}
			e.Probe("flush_refused")
		default:
			if want := kvApply(model, op); got != want {
				e.Violationf("C17.op-result", "CacheDB(simdisk):"+op.kind, "refused writes: after %v the operation %s returned %q, the model says %q", hist, op, got, want)
			}
		}
		if got, want := kvObserve(db), kvObserve(model); got != want {
			e.Violationf("C17.read-your-writes", "CacheDB(simdisk):"+kvDiffKind(got, want), "refused writes: after %v\n  CacheDB(simdisk) serves %s\n  model says   %s", hist, got, want)
		}
	}
}

func indexOf(alpha []kvOp, op kvOp) int {
	for i, o := range alpha {
		if o == op {
			return i
		}
	}
	return -1
}

// runC17Chain replays one generated chain history over every backend and
// demands that the chain store serves the same view on each.
func runC17Chain(e *sim.Env) {
	now := time.Now()
	net := gen.NewNet(e, now, gen.NetOpts{MaxHeight: 60})
	tree := gen.NewTree(net)
	tree.Grow(e, gen.GrowOpts{
		Blocks:    e.Range(5, 25),
		MinerPool: []types.Address{types.VoidAddress, net.Actors[0].Addr},
		Block:     gen.BlockOpts{Mix: gen.FullMix, MaxTx: 3, OrderSafe: true, Now: now, Strict: genStrict},
	})
	plan := makePlan(e, tree)
	dir := scratchDir(e)
	_, bdb1 := openBolt(e, filepath.Join(dir, "chain.db"))
	_, bdb2 := openBolt(e, filepath.Join(dir, "chain-cached.db"))
	type be struct {
		name string
		s    *chainSUT
	}
	ref := &be{"simdisk", newChainSUT(e, net, simdisk.New())}
	var others []*be
	for _, x := range []struct {
		name string
		db   chain.DB
	}{
		{"MemDB", chain.NewMemDB()},
		{"CacheDB(MemDB)", chain.NewCacheDB(chain.NewMemDB())},
		{"Bolt", bdb1},
		{"CacheDB(Bolt)", chain.NewCacheDB(bdb2)},
	} {
		var s *chainSUT
		e.Guard("C17.panic", x.name+".NewDBStore", func() { s = newChainSUTOn(e, net, x.db) })
		others = append(others, &be{x.name, s})
	}
	e.OnCleanup(func() { bdb1.Close(); bdb2.Close() })
	e.Shape("chain", net.Regime)
	e.Nontrivial = true
	for _, batch := range plan {
		if len(batch) == 0 {
			continue
		}
		e.Step()
		blocks := blocksOf(batch)
		refErr := ref.s.cm.AddBlocks(blocks)
		want := takeView(ref.s, false)
		for _, o := range others {
			var err error
			e.Guard("C17.panic", o.name+".AddBlocks", func() { err = o.s.cm.AddBlocks(blocks) })
			if (err != nil) != (refErr != nil) {
				e.Violationf("C17.chain-store-differs", o.name+":error", "AddBlocks on %s returned %v, on the reference backend %v", o.name, err, refErr)
			}
			var got view
			e.Guard("C17.panic", o.name+".view", func() { got = takeView(o.s, false) })
			if what, ok := want.equal(got); !ok {
				e.Violationf("C17.chain-store-differs", o.name+":"+what, "after %d blocks the chain store on %s serves a different %s than on the reference backend", len(blocks), o.name, what)
			}
		}
	}
	e.Probe("chain_history_over_backends")
}

func init() {
	register(&Prop{
		ID: "C17", Run: runC17, Quick: 600, Thorough: 6000, Level: "exploration",
		Rule:        "runs 0..95 enumerate, partitioned by their first two operations, every operation sequence of length <= 4 over {create bucket x2, put x12, delete x6, flush, cancel} on MemDB, CacheDB(MemDB), CacheDB(simdisk) (and every sequence of length <= 2, plus length 3 ending in flush/cancel, on Bolt and CacheDB(Bolt)); later runs draw sequences of length 5-200 with crash+reopen over all five backends, or replay a generated chain history over every backend and compare the served views, or drive CacheDB over a disk that for a while refuses every write to one bucket (a refused flush makes nothing durable, cancel discards it, later flushes do not bring it back), with crashes; after every operation Get of every key and the set yielded by Iter are compared with the reference map model; distinct = abstract shape (mode, length bucket, regime, faults); all runs are non-trivial",
		Real:        []string{"chain.MemDB", "chain.CacheDB", "coreutils.BoltChainDB over real bbolt on tmpfs", "chain.DBStore + chain.Manager (history replay)"},
		Stub:        []string{"reference model: simdisk.DB"},
		Assumptions: []string{"empty values are excluded (the interface cannot distinguish them from absence)", "iteration order is not part of the contract", "bbolt's own crash atomicity is trusted (crash image = file copy at the last commit)"},
	})
}
