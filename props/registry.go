// Package props holds one simulated check per property.
package props

import (
	"sort"

	"verif/sim"
)

// A Prop is a registered property check.
type Prop struct {
	ID  string
	Run func(*sim.Env)
	// Quick / Thorough are the default numbers of runs per tier.
	Quick, Thorough int
	// Flavour "instrumented" needs the lock-yield build of /repo.
	Flavour string
	// Rule describes how runs are generated and what makes one non-trivial.
	Rule string
	// Level is the MANIFEST level.
	Level string
	// Real / Stub list which components run real code and which are stubbed.
	Real, Stub []string
	// Assumptions for the evidence file.
	Assumptions []string
	// Race: both tiers add a pass under the race detector (plain
	// flavour, real mutexes) and treats a data race between two accesses in
	// coreutils code as a violation.
	Race bool
	// RunTimeout is the real-time budget of one run in seconds (0 = the
	// worker's default of 60).
	RunTimeout int
}

// Registry maps property id to its check.
var Registry = map[string]*Prop{}

func register(p *Prop) { Registry[p.ID] = p }

// IDs returns the registered ids in order.
func IDs() []string {
	var ids []string
	for id := range Registry {
		ids = append(ids, id)
	}
	sort.Strings(ids)
	return ids
}
