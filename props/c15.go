package props

import (
	"bytes"
	"context"
	"fmt"
	"time"

	proto4 "go.sia.tech/core/rhp/v4"
	"go.sia.tech/core/types"
	rhp4 "go.sia.tech/coreutils/rhp/v4"

	"verif/sim"
	"verif/simrhp"
)

// accountsModel is the conserved ledger the statement describes.
type accountsModel struct {
	acct     map[proto4.Account]types.Currency
	pool     map[proto4.Account]types.Currency
	attached map[proto4.Account][]proto4.Account
}

func (m *accountsModel) drawable(a proto4.Account) types.Currency {
	d := m.acct[a]
	for _, p := range m.attached[a] {
		d = d.Add(m.pool[p])
	}
	return d
}

// debit drains the account first, then its pools in attachment order.
func (m *accountsModel) debit(a proto4.Account, cost types.Currency) bool {
	if m.drawable(a).Cmp(cost) < 0 {
		return false
	}
	take := func(bal types.Currency) (types.Currency, types.Currency) {
		if bal.Cmp(cost) >= 0 {
			return bal.Sub(cost), types.ZeroCurrency
		}
		return types.ZeroCurrency, cost.Sub(bal)
	}
	m.acct[a], cost = take(m.acct[a])
	for _, p := range m.attached[a] {
		if cost.IsZero() {
			break
		}
		m.pool[p], cost = take(m.pool[p])
	}
	return true
}

type c15Rig struct {
	*c08Rig
	m       accountsModel
	keys    map[proto4.Account]types.PrivateKey
	stored  []types.Hash256 // roots known to be on the host
	nWrites int
}

func (c *c15Rig) newAccount() (types.PrivateKey, proto4.Account) {
	k := c.newAccountKey()
	a := proto4.Account(k.PublicKey())
	c.keys[a] = k
	return k, a
}

// verifyLedger compares every balance the host reports with the model.
func (c *c15Rig) verifyLedger(label string) {
	e := c.e
	for a, want := range c.m.acct {
		var got types.Currency
		var err error
		e.Guard("C15.panic", "RPCAccountBalance", func() { got, err = rhp4.RPCAccountBalance(context.Background(), c.tr, a) })
		if err != nil {
			e.Violationf("C15.honest-rpc", "balance", "RPCAccountBalance failed: %v", err)
		}
		if !got.Equals(want) {
			e.Violationf("C15.ledger", "account-balance", "%s: account %v has balance %v, the ledger of credits and debits says %v", label, a, got, want)
		}
	}
	var ps []proto4.Account
	for p := range c.m.pool {
		ps = append(ps, p)
	}
	bs, _ := c.contractor.PoolBalances(ps)
	for i, p := range ps {
		if !bs[i].Equals(c.m.pool[p]) {
			e.Violationf("C15.ledger", "pool-balance", "%s: pool %v has balance %v, the ledger says %v", label, p, bs[i], c.m.pool[p])
		}
	}
}

// credit issues fund / replenish and checks credits against the matching revision.
func (c *c15Rig) credit(kind string, accts []proto4.Account, amounts []types.Currency, target types.Currency) {
	e := c.e
	e.Step()
	ctx := context.Background()
	n0 := len(c.contractor.calls)
	prev := c.committed[c.contract.ID]
	pre := map[proto4.Account]types.Currency{}
	for _, a := range accts {
		if kind == "replenish-pools" {
			pre[a] = c.m.pool[a]
		} else {
			pre[a] = c.m.acct[a]
		}
	}
	var err error
	e.Guard("C15.panic", "RPC "+kind, func() {
		switch kind {
		case "fund":
			var deps []proto4.AccountDeposit
			for i, a := range accts {
				deps = append(deps, proto4.AccountDeposit{Account: a, Amount: amounts[i]})
			}
			var res rhp4.RPCFundAccountResult
			res, err = rhp4.RPCFundAccounts(ctx, c.tr, c.cs(), c.signer, c.contract, deps)
			if err == nil {
				c.contract.Revision = res.Revision
			}
		case "replenish-accounts":
			var res rhp4.RPCReplenishAccountsResult
			res, err = rhp4.RPCReplenishAccounts(ctx, c.tr, rhp4.RPCReplenishAccountsParams{Accounts: accts, Target: target, Contract: c.contract}, c.cs(), c.signer)
			if err == nil {
				c.contract.Revision = res.Revision
			}
		case "replenish-pools":
			var res rhp4.RPCReplenishPoolsResult
			res, err = rhp4.RPCReplenishPools(ctx, c.tr, rhp4.RPCReplenishPoolsParams{Pools: accts, Target: target, Contract: c.contract}, c.cs(), c.signer)
			if err == nil {
				c.contract.Revision = res.Revision
			}
		}
	})
	waitQuiet()
	credited := false
	for _, call := range c.contractor.calls[n0:] {
		if call.revision == nil || call.err != nil {
			continue
		}
		credited = true
		var sum types.Currency
		for _, d := range call.deposits {
			var over bool
			if sum, over = sum.AddWithOverflow(d.Amount); over {
				e.Violationf("C15.credit-matches-revision", kind+":overflow", "%s credited deposits whose sum overflows: %v", call.method, call.deposits)
			}
			if call.method == "CreditPoolsWithContract" {
				c.m.pool[d.Account] = c.m.pool[d.Account].Add(d.Amount)
			} else {
				c.m.acct[d.Account] = c.m.acct[d.Account].Add(d.Amount)
			}
		}
		moved := prev.RenterOutput.Value.Sub(call.revision.RenterOutput.Value)
		if !moved.Equals(sum) {
			e.Violationf("C15.credit-matches-revision", kind, "%s credited %v in total but the accompanying revision moves %v from renter to host", call.method, sum, moved)
		}
		sigHash := c.cs().ContractSigHash(*call.revision)
		if !prev.RenterPublicKey.VerifyHash(sigHash, call.revision.RenterSignature) {
			e.Violationf("C15.credit-matches-revision", kind+":unsigned", "%s credited accounts with a revision the renter did not sign", call.method)
		}
		c.committed[call.id] = *call.revision
		prev = *call.revision
	}
	c.seenCall = len(c.contractor.calls)
	e.Logf("%s(%d entries, target %v) -> err=%v credited=%v", kind, len(accts), target, err != nil, credited)
	e.Shape(kind, fmt.Sprint(err != nil), fmt.Sprint(credited))
	if err != nil {
		c.resync()
	}
	if kind != "fund" && err == nil {
		// tops each entry up to, and never beyond, the target
		for _, a := range accts {
			post := c.m.acct[a]
			if kind == "replenish-pools" {
				post = c.m.pool[a]
			}
			want := pre[a]
			if want.Cmp(target) < 0 {
				want = target
			}
			if !post.Equals(want) {
				sig := "not-topped-up"
				if post.Cmp(target) > 0 && pre[a].Cmp(target) <= 0 {
					sig = "beyond-target"
				}
				e.Violationf("C15.replenish-to-target", kind+":"+sig, "%s with target %v left %v at %v (before: %v); it must end at max(before, target) = %v", kind, target, a, post, pre[a], want)
			}
		}
	}
	c.verifyLedger(kind)
}

// service runs a read / write / verify with the account at a drawn distance from the cost.
func (c *c15Rig) service(kind string) {
	e := c.e
	e.Step()
	ctx := context.Background()
	key, acct := c.newAccount()
	c.m.acct[acct] = types.ZeroCurrency
	var cost types.Currency
	length := uint64(e.Range(1, 64)) * 64
	root := c.stored[e.Intn(len(c.stored))]
	missing := kind != "write" && e.Chance(1, 8)
	if missing {
		copy(root[:], e.Bytes(32))
	}
	switch kind {
	case "read":
		cost = c.prices.RPCReadSectorCost(length).RenterCost()
	case "write":
		cost = c.prices.RPCWriteSectorCost(length).RenterCost()
	case "verify":
		cost = c.prices.RPCVerifySectorCost().RenterCost()
	}
	// own balance and (sometimes) an attached pool, together at cost-1, cost or cost+1
	total := cost
	rel := e.Pick(2, 2, 1)
	switch rel {
	case 0:
		total = cost.Sub(types.NewCurrency64(1))
	case 2:
		total = cost.Add(types.NewCurrency64(1))
	}
	own := total
	usePool := e.Chance(1, 2) && !total.IsZero()
	var pool proto4.Account
	if usePool {
		own = total.Div64(uint64(e.Range(2, 4)))
		pk, p := c.newAccount()
		pool = p
		c.m.pool[p] = types.ZeroCurrency
		c.credit("replenish-pools", []proto4.Account{p}, nil, total.Sub(own))
		var aerr error
		e.Guard("C15.panic", "RPCAttachPools", func() {
			aerr = rhp4.RPCAttachPools(ctx, c.tr, []rhp4.PoolAttachInput{{Account: acct, PoolKey: pk}}, time.Minute)
		})
		if aerr != nil {
			e.Violationf("C15.honest-rpc", "attach", "honest RPCAttachPools failed: %v", aerr)
		}
		c.m.attached[acct] = append(c.m.attached[acct], p)
		if e.Chance(1, 2) {
			// attaching the same pool again (a renter renewing the attachment's
			// validity) gives the account nothing more to draw on
			e.Guard("C15.panic", "RPCAttachPools", func() {
				aerr = rhp4.RPCAttachPools(ctx, c.tr, []rhp4.PoolAttachInput{{Account: acct, PoolKey: pk}}, time.Duration(e.Range(2, 120))*time.Minute)
			})
			if aerr != nil {
				e.Violationf("C15.honest-rpc", "re-attach", "attaching an already attached pool again failed: %v", aerr)
			}
			e.Fault("pool-attached-twice")
		}
	}
	if !own.IsZero() {
		c.credit("fund", []proto4.Account{acct}, []types.Currency{own}, types.ZeroCurrency)
	}
	n0, s0 := len(c.contractor.calls), len(c.sectors.calls)
	var buf bytes.Buffer
	var err error
	// 1 write in 4: the upload stops half-way (or before its first byte) and
	// the connection drops - nothing was delivered, nothing may be charged
	aborted := ""
	if kind == "write" && e.Chance(1, 4) {
		aborted = []string{"upload-cut-half-way", "upload-never-starts"}[e.Intn(2)]
		c.hook = func(_ int, id types.Specifier, step int, st simrhp.Step, o proto4.Object, raw []byte) simrhp.Action {
			if raw == nil || !st.FromRenter {
				return simrhp.Pass
			}
			e.Fault(aborted)
			if aborted == "upload-never-starts" {
				return simrhp.Drop
			}
			return simrhp.Truncate
		}
	}
	data := bytes.Repeat([]byte{byte(c.nWrites + 1)}, int(length))
	e.Guard("C15.panic", "RPC "+kind, func() {
		switch kind {
		case "read":
			_, err = rhp4.RPCReadSector(ctx, c.tr, c.prices, c.token(key), &buf, root, 0, length)
		case "write":
			var res rhp4.RPCWriteSectorResult
			res, err = rhp4.RPCWriteSector(ctx, c.tr, c.prices, c.token(key), bytes.NewReader(data), length)
			if err == nil {
				c.stored = append(c.stored, res.Root)
				c.nWrites++
			}
		case "verify":
			_, err = rhp4.RPCVerifySector(ctx, c.tr, c.prices, c.token(key), root)
		}
	})
	c.hook = nil
	waitQuiet()
	// what did the host do, in which order?
	debitSeq, serviceSeq := -1, -1
	var debit *contractorCall
	for i := range c.contractor.calls[n0:] {
		call := &c.contractor.calls[n0+i]
		if call.method == "DebitAccount" {
			debit = call
			debitSeq = call.seq
		}
	}
	for _, sc := range c.sectors.calls[s0:] {
		if (sc.method == "ReadSector" || sc.method == "StoreSector") && sc.err == nil && serviceSeq < 0 {
			serviceSeq = sc.seq
		}
	}
	c.seenCall = len(c.contractor.calls)
	sufficient := total.Cmp(cost) >= 0
	e.Logf("%s len=%d cost=%v drawable=cost%+d pool=%v missing=%v -> err=%v debit=%v service=%v", kind, length, cost, rel-1, usePool, missing, err != nil, debit != nil && debit.err == nil, serviceSeq >= 0)
	e.Shape(kind, fmt.Sprint(rel), fmt.Sprint(usePool), fmt.Sprint(missing), fmt.Sprint(err != nil))
	e.Nontrivial = true
	debited := debit != nil && debit.err == nil
	if debited {
		if !debit.usage.RenterCost().Equals(cost) {
			e.Violationf("C15.debit-is-priced-cost", kind, "%s debited %v, the priced cost is %v", kind, debit.usage.RenterCost(), cost)
		}
		if debit.account != acct {
			e.Violationf("C15.debit-is-priced-cost", kind+":account", "%s debited account %v instead of the token's account %v", kind, debit.account, acct)
		}
		if !c.m.debit(acct, cost) {
			e.Violationf("C15.no-overdraft", kind, "%s debited %v although only %v is drawable", kind, cost, c.m.drawable(acct))
		}
		if serviceSeq < 0 {
			e.Violationf("C15.paid-then-served", kind+":not-served", "%s debited the account but the sector was neither read nor stored", kind)
		}
	}
	if serviceSeq >= 0 && (!debited || debitSeq > serviceSeq) {
		e.Violationf("C15.paid-then-served", kind+":served-first", "%s touched the sector store (event %d) before / without a successful debit (event %d)", kind, serviceSeq, debitSeq)
	}
	switch {
	case aborted != "" && (debited || serviceSeq >= 0 || err == nil):
		e.Violationf("C15.debit-only-for-service", "write:"+aborted, "a write whose upload was cut (%s): err=%v debited=%v stored=%v", aborted, err, debited, serviceSeq >= 0)
	case aborted != "":
	case !sufficient && (debited || serviceSeq >= 0 || buf.Len() > 0 || err == nil):
		e.Violationf("C15.insufficient-funds", kind, "%s with drawable funds below the cost: err=%v, debited=%v, sector touched=%v, %d bytes delivered", kind, err, debited, serviceSeq >= 0, buf.Len())
	case missing && (debited || err == nil):
		e.Violationf("C15.debit-only-for-service", kind, "%s of a sector the host does not store: err=%v debited=%v", kind, err, debited)
	case sufficient && !missing && err != nil:
		e.Violationf("C15.honest-rpc", kind, "%s with sufficient funds failed: %v", kind, err)
	}
	_ = pool
	c.verifyLedger(kind)
}

// attachDetach tries attachments / detachments with valid and invalid authorisation.
func (c *c15Rig) attachDetach() {
	e := c.e
	e.Step()
	ctx := context.Background()
	ak, acct := c.newAccount()
	pk, pool := c.newAccount()
	c.m.acct[acct], c.m.pool[pool] = types.ZeroCurrency, types.ZeroCurrency
	c.credit("replenish-pools", []proto4.Account{pool}, nil, types.Siacoins(1))
	other := c.newAccountKey()
	mode := e.Pick(2, 1, 1, 1, 1)
	names := []string{"valid", "signed-by-account-key", "signed-by-stranger", "expired", "signature-flipped"}
	c.hook = func(_ int, id types.Specifier, step int, st simrhp.Step, o proto4.Object, raw []byte) simrhp.Action {
		req, ok := o.(*proto4.RPCAttachPoolsRequest)
		if !ok || raw != nil {
			return simrhp.Pass
		}
		a := &req.Attachments[0]
		switch mode {
		case 1:
			a.Signature = ak.SignHash(a.SigHash(c.hostKey.PublicKey()))
		case 2:
			a.Signature = other.SignHash(a.SigHash(c.hostKey.PublicKey()))
		case 3:
			a.ValidUntil = time.Now().Add(-time.Second)
			a.Signature = pk.SignHash(a.SigHash(c.hostKey.PublicKey()))
		case 4:
			a.Signature[9] ^= 4
		}
		return simrhp.Pass
	}
	var err error
	e.Guard("C15.panic", "RPCAttachPools", func() {
		err = rhp4.RPCAttachPools(ctx, c.tr, []rhp4.PoolAttachInput{{Account: acct, PoolKey: pk}}, time.Minute)
	})
	c.hook = nil
	waitQuiet()
	if mode != 0 {
		e.Fault("attach-" + names[mode])
	}
	if (mode == 0) != (err == nil) {
		e.Violationf("C15.attach-authorisation", names[mode], "attach (%s) returned err=%v", names[mode], err)
	}
	if mode == 0 {
		c.m.attached[acct] = append(c.m.attached[acct], pool)
	}
	// effect: the account can (only then) draw on the pool
	cost := c.prices.RPCVerifySectorCost().RenterCost()
	canPay := c.m.drawable(acct).Cmp(cost) >= 0
	var verr error
	n0 := len(c.contractor.calls)
	e.Guard("C15.panic", "RPCVerifySector", func() { _, verr = rhp4.RPCVerifySector(ctx, c.tr, c.prices, c.token(ak), c.stored[0]) })
	waitQuiet()
	debited := false
	for _, call := range c.contractor.calls[n0:] {
		if call.method == "DebitAccount" && call.err == nil {
			debited = true
		}
	}
	if debited != canPay || (verr == nil) != canPay {
		e.Violationf("C15.attach-authorisation", names[mode]+":effect", "after attach (%s) a verify costing %v against drawable %v: err=%v debited=%v", names[mode], cost, c.m.drawable(acct), verr, debited)
	}
	if debited {
		c.m.debit(acct, cost)
	}
	e.Shape("attach", names[mode])
	// detach: by the account key, the pool key, or a stranger
	if mode == 0 {
		dm := e.Pick(1, 1, 1)
		signer := []types.PrivateKey{ak, pk, other}[dm]
		var derr error
		e.Guard("C15.panic", "RPCDetachPools", func() {
			derr = rhp4.RPCDetachPools(ctx, c.tr, []rhp4.PoolDetachInput{{Account: acct, Pool: pool, Signer: signer}}, time.Minute)
		})
		waitQuiet()
		if (dm != 2) != (derr == nil) {
			e.Violationf("C15.detach-authorisation", []string{"account-key", "pool-key", "stranger"}[dm], "detach signed by %s returned err=%v", []string{"the account key", "the pool key", "a stranger"}[dm], derr)
		}
		if dm != 2 {
			c.m.attached[acct] = nil
		} else {
			e.Fault("detach-stranger")
		}
		e.Shape("detach", fmt.Sprint(dm))
	}
	c.verifyLedger("attach/detach")
}

// mixedAttachBatch sends one attach request with two attachments, one signed
// by the pool's key and one (for a stranger's account onto somebody else's
// funded pool) signed by the stranger: an attachment takes effect only with a
// valid signature by the right key, whatever else is in the request.
func (c *c15Rig) mixedAttachBatch() {
	e := c.e
	e.Step()
	ctx := context.Background()
	ak, acct := c.newAccount()
	pk, pool := c.newAccount()
	sk, stranger := c.newAccount()
	vk, victimPool := c.newAccount()
	xk, _ := c.newAccount() // a pool key of the stranger's own
	_, _ = ak, vk
	c.m.acct[acct], c.m.acct[stranger] = types.ZeroCurrency, types.ZeroCurrency
	c.m.pool[pool], c.m.pool[victimPool] = types.ZeroCurrency, types.ZeroCurrency
	cost := c.prices.RPCVerifySectorCost().RenterCost()
	c.credit("replenish-pools", []proto4.Account{pool, victimPool}, nil, cost.Mul64(3))
	badFirst := e.Chance(1, 2)
	c.hook = func(_ int, id types.Specifier, step int, st simrhp.Step, o proto4.Object, raw []byte) simrhp.Action {
		req, ok := o.(*proto4.RPCAttachPoolsRequest)
		if !ok || raw != nil || len(req.Attachments) != 2 {
			return simrhp.Pass
		}
		// the second input names a pool of the stranger's own: make it name the
		// victim's pool, still signed with the stranger's pool key
		i := 1
		if badFirst {
			req.Attachments[0], req.Attachments[1] = req.Attachments[1], req.Attachments[0]
			i = 0
		}
		a := &req.Attachments[i]
		a.Pool = victimPool
		a.Signature = xk.SignHash(a.SigHash(c.hostKey.PublicKey()))
		return simrhp.Pass
	}
	var err error
	e.Guard("C15.panic", "RPCAttachPools", func() {
		err = rhp4.RPCAttachPools(ctx, c.tr, []rhp4.PoolAttachInput{{Account: acct, PoolKey: pk}, {Account: stranger, PoolKey: xk}}, time.Minute)
	})
	c.hook = nil
	waitQuiet()
	e.Logf("attach batch {valid, stranger onto a funded pool} (bad one first: %v) -> err=%v", badFirst, err)
	e.Shape("attach-batch-mixed", fmt.Sprint(badFirst), fmt.Sprint(err != nil))
	e.Fault("attach-batch-with-one-bad-signature")
	if err == nil {
		// the good one may have taken effect; the bad one must not have
		c.m.attached[acct] = append(c.m.attached[acct], pool)
	}
	// the stranger cannot draw on the victim's pool
	n0 := len(c.contractor.calls)
	var verr error
	e.Guard("C15.panic", "RPCVerifySector", func() { _, verr = rhp4.RPCVerifySector(ctx, c.tr, c.prices, c.token(sk), c.stored[0]) })
	waitQuiet()
	for _, call := range c.contractor.calls[n0:] {
		if call.method == "DebitAccount" && call.err == nil {
			e.Violationf("C15.attach-authorisation", "batch:stranger-draws", "an attach request holding one valid attachment and one signed by a stranger (err=%v) let the stranger's account pay %v from a pool it holds no key of (verify err=%v)", err, cost, verr)
		}
	}
	c.seenCall = len(c.contractor.calls)
	if err != nil {
		// refused as a whole: the good one is not attached either
		n1 := len(c.contractor.calls)
		e.Guard("C15.panic", "RPCVerifySector", func() { _, verr = rhp4.RPCVerifySector(ctx, c.tr, c.prices, c.token(ak), c.stored[0]) })
		waitQuiet()
		for _, call := range c.contractor.calls[n1:] {
			if call.method == "DebitAccount" && call.err == nil {
				e.Violationf("C15.attach-authorisation", "batch:refused-yet-attached", "an attach request that was refused (%v) attached its valid entry all the same", err)
			}
		}
		c.seenCall = len(c.contractor.calls)
	}
	c.verifyLedger("mixed attach batch")
}

// pipelinedReplenish puts two replenish requests for the same account on the
// same contract to a host whose contract lock waits for its holder: the second
// arrives while the first is waiting for the renter's signature, signed
// against the revision the first is about to produce. Together they top the
// account up to the target, not beyond.
func (c *c15Rig) pipelinedReplenish() {
	e := c.e
	e.Step()
	ctx := context.Background()
	_, acct := c.newAccount()
	c.m.acct[acct] = types.ZeroCurrency
	target := types.Siacoins(uint32(e.Range(1, 9)))
	n0 := len(c.contractor.calls)
	prev := c.committed[c.contract.ID]
	first := c.contract
	c.contractor.blockingLocks = true
	reached, gate := make(chan struct{}), make(chan struct{})
	once := false
	c.hook = func(_ int, id types.Specifier, step int, st simrhp.Step, o proto4.Object, raw []byte) simrhp.Action {
		if !once && id == proto4.RPCReplenishAccountsID && st.FromRenter && step == 2 {
			once = true
			close(reached)
			<-gate
		}
		return simrhp.Pass
	}
	var err1, err2 error
	var rp1, rp2 any
	done1 := make(chan struct{})
	go func() {
		defer close(done1)
		defer func() { rp1 = recover() }()
		_, err1 = rhp4.RPCReplenishAccounts(ctx, c.tr, rhp4.RPCReplenishAccountsParams{Accounts: []proto4.Account{acct}, Target: target, Contract: first}, c.cs(), c.signer)
	}()
	second := false
	select {
	case <-reached:
		if next, _, rerr := proto4.ReviseForReplenish(first.Revision, target); rerr == nil {
			second = true
			sc := first
			sc.Revision = next
			done2 := make(chan struct{})
			go func() {
				defer close(done2)
				defer func() { rp2 = recover() }()
				_, err2 = rhp4.RPCReplenishAccounts(ctx, c.tr, rhp4.RPCReplenishAccountsParams{Accounts: []proto4.Account{acct}, Target: target, Contract: sc}, c.cs(), c.signer)
			}()
			// let it reach the host, where it waits for the contract
			time.Sleep(time.Duration(e.Range(5, 200)) * time.Millisecond)
			close(gate)
			<-done2
		} else {
			close(gate)
		}
	case <-done1:
		close(gate)
	}
	<-done1
	c.hook = nil
	c.contractor.blockingLocks = false
	if rp1 != nil {
		panic(rp1)
	}
	if rp2 != nil {
		panic(rp2)
	}
	waitQuiet()
	for _, call := range c.contractor.calls[n0:] {
		if call.revision == nil || call.err != nil {
			continue
		}
		var sum types.Currency
		for _, d := range call.deposits {
			sum = sum.Add(d.Amount)
			c.m.acct[d.Account] = c.m.acct[d.Account].Add(d.Amount)
		}
		if moved := prev.RenterOutput.Value.Sub(call.revision.RenterOutput.Value); !moved.Equals(sum) {
			e.Violationf("C15.credit-matches-revision", "replenish-pipelined", "%s credited %v in total but the accompanying revision moves %v from renter to host", call.method, sum, moved)
		}
		c.committed[call.id] = *call.revision
		prev = *call.revision
	}
	c.seenCall = len(c.contractor.calls)
	e.Logf("two replenish requests for one account, the second while the first waits for the renter (sent: %v): err=%v / %v, account at %v, target %v", second, err1, err2, c.m.acct[acct], target)
	e.Shape("replenish-pipelined", fmt.Sprint(second), fmt.Sprint(err1 != nil), fmt.Sprint(err2 != nil))
	e.Fault("replenish-requests-pipelined")
	if err1 == nil && !c.m.acct[acct].Equals(target) {
		e.Violationf("C15.replenish-to-target", "replenish-accounts:pipelined", "two replenish requests with target %v for a fresh account, the second sent while the first was waiting for the renter's signature (errors: %v / %v), left the account at %v", target, err1, err2, c.m.acct[acct])
	}
	c.resync()
	c.verifyLedger("pipelined replenish")
}

// drainOrder attaches several funded pools to one account, detaches one of
// them (any position) and then pays for verifications beyond what a single
// pool holds: the remaining pools are drawn on in the order they were attached.
func (c *c15Rig) drainOrder() {
	e := c.e
	e.Step()
	ctx := context.Background()
	ak, acct := c.newAccount()
	c.m.acct[acct] = types.ZeroCurrency
	cost := c.prices.RPCVerifySectorCost().RenterCost()
	n := e.Range(2, 4)
	var pks []types.PrivateKey
	var ps []proto4.Account
	for i := 0; i < n; i++ {
		pk, p := c.newAccount()
		c.m.pool[p] = types.ZeroCurrency
		// between half a verification and two and a half
		c.credit("replenish-pools", []proto4.Account{p}, nil, cost.Mul64(uint64(e.Range(2, 10))).Div64(4))
		pks, ps = append(pks, pk), append(ps, p)
	}
	var aerr error
	if e.Chance(1, 2) {
		// one request
		var in []rhp4.PoolAttachInput
		for i := range ps {
			in = append(in, rhp4.PoolAttachInput{Account: acct, PoolKey: pks[i]})
		}
		e.Guard("C15.panic", "RPCAttachPools", func() { aerr = rhp4.RPCAttachPools(ctx, c.tr, in, time.Minute) })
	} else {
		for i := range ps {
			e.Guard("C15.panic", "RPCAttachPools", func() {
				if err := rhp4.RPCAttachPools(ctx, c.tr, []rhp4.PoolAttachInput{{Account: acct, PoolKey: pks[i]}}, time.Minute); err != nil {
					aerr = err
				}
			})
		}
	}
	if aerr != nil {
		e.Violationf("C15.honest-rpc", "attach-several", "honest RPCAttachPools of %d pools failed: %v", n, aerr)
		return
	}
	c.m.attached[acct] = append([]proto4.Account(nil), ps...)
	gone := -1
	if e.Chance(3, 4) {
		gone = e.Intn(n)
		signer := ak
		if e.Chance(1, 2) {
			signer = pks[gone]
		}
		var derr error
		e.Guard("C15.panic", "RPCDetachPools", func() {
			derr = rhp4.RPCDetachPools(ctx, c.tr, []rhp4.PoolDetachInput{{Account: acct, Pool: ps[gone], Signer: signer}}, time.Minute)
		})
		if derr != nil {
			e.Violationf("C15.detach-authorisation", "one-of-several", "detaching pool %d of %d failed: %v", gone, n, derr)
			return
		}
		var rest []proto4.Account
		for i, p := range ps {
			if i != gone {
				rest = append(rest, p)
			}
		}
		c.m.attached[acct] = rest
		e.Fault("detach-one-of-several")
	}
	waitQuiet()
	c.verifyLedger("attach several / detach one")
	// verifications until the funds run out (and one more)
	for k := 0; k < 8; k++ {
		canPay := c.m.drawable(acct).Cmp(cost) >= 0
		n0 := len(c.contractor.calls)
		var verr error
		e.Guard("C15.panic", "RPCVerifySector", func() { _, verr = rhp4.RPCVerifySector(ctx, c.tr, c.prices, c.token(ak), c.stored[0]) })
		waitQuiet()
		debited := false
		for _, call := range c.contractor.calls[n0:] {
			if call.method == "DebitAccount" && call.err == nil {
				debited = true
			}
		}
		c.seenCall = len(c.contractor.calls)
		if debited != canPay || (verr == nil) != canPay {
			e.Violationf("C15.insufficient-funds", "verify:several-pools", "verify %d costing %v with %d attached pools (detached: %d), drawable %v: err=%v debited=%v", k, cost, len(c.m.attached[acct]), gone, c.m.drawable(acct), verr, debited)
		}
		if debited {
			c.m.debit(acct, cost)
		}
		c.verifyLedger(fmt.Sprintf("verify %d drawing on %d pools attached in order (detached: %d of %d)", k, len(c.m.attached[acct]), gone, n))
		if !canPay {
			break
		}
	}
	e.Shape("drain-order", fmt.Sprint(n), fmt.Sprint(gone))
	e.Nontrivial = true
}

func runC15(e *sim.Env) {
	base := newC08Rig(e, "C15")
	c := &c15Rig{c08Rig: base, keys: map[proto4.Account]types.PrivateKey{}}
	c.m = accountsModel{acct: map[proto4.Account]types.Currency{}, pool: map[proto4.Account]types.Currency{}, attached: map[proto4.Account][]proto4.Account{}}
	for i := 0; i < 4; i++ {
		c.stored = append(c.stored, testSector(i).root)
	}
	var pool []proto4.Account
	for i := 0; i < 4; i++ {
		_, a := c.newAccount()
		c.m.acct[a] = types.ZeroCurrency
		pool = append(pool, a)
	}
	var pools []proto4.Account
	for i := 0; i < 2; i++ {
		_, p := c.newAccount()
		c.m.pool[p] = types.ZeroCurrency
		pools = append(pools, p)
	}
	steps := e.Range(8, 24)
	for i := 0; i < steps; i++ {
		switch e.Pick(2, 3, 2, 3, 3, 2, 2, 1, 1, 1) {
		case 9:
			c.mixedAttachBatch()
		case 8:
			c.pipelinedReplenish()
		case 7:
			c.drainOrder()
		case 0:
			var as []proto4.Account
			var amts []types.Currency
			for j, n := 0, e.Range(1, 3); j < n; j++ {
				as = append(as, pool[e.Intn(len(pool))])
				amts = append(amts, types.Siacoins(uint32(e.Range(1, 9))).Div64(uint64(e.Range(1, 1000))))
			}
			if e.Chance(1, 6) && len(pool) >= 3 {
				// an adversarial funding request: deposits whose sum wraps around
				// (max + 2 + 1 = 2 mod 2^128) under the revision the honest
				// request for 2 H carries. Nothing may be credited.
				c.hook = func(_ int, id types.Specifier, step int, st simrhp.Step, o proto4.Object, raw []byte) simrhp.Action {
					if req, ok := o.(*proto4.RPCFundAccountsRequest); ok && st.FromRenter {
						req.Deposits = []proto4.AccountDeposit{
							{Account: pool[0], Amount: types.MaxCurrency},
							{Account: pool[1], Amount: types.NewCurrency64(2)},
							{Account: pool[2], Amount: types.NewCurrency64(1)},
						}
						e.Fault("fund-deposits-overflow")
					}
					return simrhp.Pass
				}
				c.credit("fund", []proto4.Account{pool[1]}, []types.Currency{types.NewCurrency64(2)}, types.ZeroCurrency)
				c.hook = nil
				continue
			}
			c.credit("fund", as, amts, types.ZeroCurrency)
		case 1:
			// replenish, sometimes naming an account twice or one above the target
			var as []proto4.Account
			for j, n := 0, e.Range(1, 4); j < n; j++ {
				as = append(as, pool[e.Intn(len(pool))])
			}
			c.credit("replenish-accounts", as, nil, types.Siacoins(uint32(e.Range(1, 12))))
		case 2:
			var ps []proto4.Account
			for j, n := 0, e.Range(1, 3); j < n; j++ {
				ps = append(ps, pools[e.Intn(len(pools))])
			}
			c.credit("replenish-pools", ps, nil, types.Siacoins(uint32(e.Range(1, 12))))
		case 3:
			c.service("read")
		case 4:
			c.service("write")
		case 5:
			c.service("verify")
		case 6:
			c.attachDetach()
		}
		if e.Chance(1, 10) {
			c.refreshPrices()
		}
	}
}

var _ = sim.NewEnv

func init() {
	register(&Prop{
		ID: "C15", Run: runC15, Quick: 900, Thorough: 8000, Level: "exploration",
		Rule:        "one run = a formed contract and 8-24 drawn operations over several accounts and pools: fund, replenish accounts / pools (lists with repeated entries and entries already above the target; two replenish requests for one account pipelined at a host whose contract lock waits for its holder), attach (valid, signed by the account key, by a stranger, expired, flipped signature; one request with a valid attachment and a stranger's onto a funded pool) and detach (account key, pool key, stranger), several funded pools attached to one account (one request or several), one of them detached again at a drawn position, then verifications until the funds run out, and read / write (1 in 4 with the upload cut half-way or before its first byte: no debit, nothing stored) / verify with the drawable funds (own balance, optionally split with an attached pool, which in half of those cases is attached a second time) at cost-1H, cost and cost+1H and with sectors the host does not store; every Credit*/DebitAccount call and every sector-store call is recorded with the global event number; oracles: credits equal the value the accompanying renter-signed revision moves, debits equal the priced cost (core's functions) and precede the sector access, no debit without service and no service without debit, insufficient funds deliver nothing / store nothing / debit nothing, replenish ends at max(before, target), attach/detach only with the right signature before expiry, and after every step every account and pool balance the host reports equals the model ledger; distinct = abstract trace; all runs non-trivial once a service RPC ran",
		Real:        []string{"rhp4.Server", "rhp4 RPC* client functions", "testutil.EphemeralContractor (accounts, pools, attachments) / EphemeralSectorStore behind recording wrappers", "wallets, chain.Manager"},
		Stub:        []string{"transport: simrhp in-memory streams with typed relay", "disk: simdisk.DB"},
		Assumptions: []string{"no fault is injected into the sector store: a host-side disk error after a legitimate debit is outside the statement"},
	})
}
