package props

import (
	"errors"
	"fmt"
	"runtime/debug"
	"sort"
	"sync"
	"time"

	"go.sia.tech/core/types"
	"go.sia.tech/coreutils/chain"
	"go.sia.tech/coreutils/wallet"

	"verif/gen"
	"verif/sim"
	"verif/simdisk"
)

type reservation struct {
	ids     []types.SiacoinOutputID
	expires time.Time
	what    string
}

// walletRig is a real wallet over a real manager plus the harness's own
// bookkeeping of what is reserved.
type walletRig struct {
	e    *sim.Env
	net  *gen.Net
	tree *gen.Tree
	s    *chainSUT
	me   gen.Actor
	st   *walletStore
	sy   *recSyncer
	w    *wallet.SingleAddressWallet
	opts []wallet.Option
	resD time.Duration
	tip  *gen.Node
	// lagTip: the wallet's own tip while it has not been told about the newest blocks
	lagTip *gen.Node
	now    time.Time
	resv   []*reservation
	bo     gen.BlockOpts
}

func (r *walletRig) sync() {
	syncWallet(r.e, "C07", r.s, r.w, r.st, 1000, func() int { return 100 })
	r.tip = r.tree.ByID[r.s.cm.Tip().ID]
}

// reserved returns the ids the harness believes are reserved right now.
func (r *walletRig) reserved() map[types.SiacoinOutputID]string {
	out := map[types.SiacoinOutputID]string{}
	now := time.Now()
	for _, rv := range r.resv {
		if now.Before(rv.expires) {
			for _, id := range rv.ids {
				out[id] = rv.what
			}
		}
	}
	return out
}

func (r *walletRig) release(ids []types.SiacoinOutputID) {
	drop := map[types.SiacoinOutputID]bool{}
	for _, id := range ids {
		drop[id] = true
	}
	for _, rv := range r.resv {
		kept := rv.ids[:0]
		for _, id := range rv.ids {
			if !drop[id] {
				kept = append(kept, id)
			}
		}
		rv.ids = kept
	}
}

// poolSpent returns the outputs spent by pooled transactions.
func (r *walletRig) poolSpent() map[types.SiacoinOutputID]bool {
	out := map[types.SiacoinOutputID]bool{}
	for _, t := range r.s.cm.PoolTransactions() {
		for _, in := range t.SiacoinInputs {
			out[in.ParentID] = true
		}
	}
	for _, t := range r.s.cm.V2PoolTransactions() {
		for _, in := range t.SiacoinInputs {
			out[in.Parent.ID] = true
		}
	}
	return out
}

// modelSpendable computes what the statement calls spendable from the
// reference ledger, the reported pool and the harness's reservation log.
func (r *walletRig) modelSpendable() (types.Currency, map[types.SiacoinOutputID]types.SiacoinElement) {
	res := r.reserved()
	ps := r.poolSpent()
	out := map[types.SiacoinOutputID]types.SiacoinElement{}
	var sum types.Currency
	for id, el := range r.tip.L.SC {
		if el.SiacoinOutput.Address != r.me.Addr || el.MaturityHeight > r.tip.Height || ps[id] {
			continue
		}
		if _, ok := res[id]; ok {
			continue
		}
		out[id] = el
		sum = sum.Add(el.SiacoinOutput.Value)
	}
	return sum, out
}

// agreement checks that balance, spendable outputs and input selection agree.
func (r *walletRig) agreement(label string) {
	e := r.e
	var bal wallet.Balance
	var sp []types.SiacoinElement
	var err1, err2 error
	e.Guard("C07.panic", "Balance/SpendableOutputs", func() {
		bal, err1 = r.w.Balance()
		sp, err2 = r.w.SpendableOutputs()
	})
	if err1 != nil || err2 != nil {
		e.Violationf("C07.query-error", "error", "%s: Balance err=%v SpendableOutputs err=%v", label, err1, err2)
	}
	var spSum types.Currency
	for _, el := range sp {
		spSum = spSum.Add(el.SiacoinOutput.Value)
	}
	model, modelSet := r.modelSpendable()
	if !bal.Spendable.Equals(spSum) {
		// which outputs make the difference?
		ps := r.poolSpent()
		var why []string
		for _, el := range sp {
			if ps[el.ID] {
				why = append(why, fmt.Sprintf("%s listed as spendable but spent by a pooled transaction", el.ID.String()[:8]))
			}
		}
		sort.Strings(why)
		sig := "balance-vs-list"
		if len(why) > 0 {
			sig = "list-includes-pool-spent"
		}
		e.Violationf("C07.agreement", sig, "%s: Balance().Spendable = %v but SpendableOutputs() sums to %v %v", label, bal.Spendable, spSum, why)
	}
	if !bal.Spendable.Equals(model) {
		var diff []string
		got := map[types.SiacoinOutputID]bool{}
		for _, el := range sp {
			got[el.ID] = true
			if _, ok := modelSet[el.ID]; !ok {
				diff = append(diff, "wallet-only:"+el.ID.String()[:8])
			}
		}
		for id := range modelSet {
			if !got[id] {
				diff = append(diff, "model-only:"+id.String()[:8])
			}
		}
		sort.Strings(diff)
		e.Violationf("C07.spendable-model", "balance-vs-model", "%s: Balance().Spendable = %v, but owned + mature + unspent on chain + not pool-spent + not reserved sums to %v (%v)", label, bal.Spendable, model, diff)
	}
	// selection agrees: exactly the spendable sum can be funded, one hasting more cannot
	if r.tip.Height+1 >= r.net.Allow() && !model.IsZero() {
		txn := types.V2Transaction{SiacoinOutputs: []types.SiacoinOutput{{Address: types.VoidAddress, Value: model}}}
		var err error
		e.Guard("C07.panic", "FundV2Transaction(all)", func() { _, _, err = r.w.FundV2Transaction(&txn, model, false) })
		if err != nil {
			e.Violationf("C07.agreement", "cannot-fund-spendable", "%s: FundV2Transaction cannot fund exactly the spendable balance %v: %v", label, model, err)
		}
		e.Guard("C07.panic", "ReleaseInputs", func() { r.w.ReleaseInputs(nil, []types.V2Transaction{txn}) })
		txn2 := types.V2Transaction{}
		more := model.Add(types.NewCurrency64(1))
		e.Guard("C07.panic", "FundV2Transaction(all+1)", func() { _, _, err = r.w.FundV2Transaction(&txn2, more, false) })
		if err == nil {
			e.Violationf("C07.agreement", "funds-more-than-spendable", "%s: FundV2Transaction funded %v although only %v is spendable (inputs %d)", label, more, model, len(txn2.SiacoinInputs))
		}
		if !errors.Is(err, wallet.ErrNotEnoughFunds) {
			e.Violationf("C07.agreement", "wrong-error", "%s: funding more than the balance failed with %v", label, err)
		}
		if len(txn2.SiacoinInputs) != 0 || len(txn2.SiacoinOutputs) != 0 {
			e.Violationf("C07.failed-reserves-nothing", "txn-modified", "%s: a failed FundV2Transaction modified the transaction", label)
		}
		// the failed call must not have reserved anything
		var bal2 wallet.Balance
		e.Guard("C07.panic", "Balance", func() { bal2, _ = r.w.Balance() })
		if !bal2.Spendable.Equals(bal.Spendable) {
			e.Violationf("C07.failed-reserves-nothing", "balance-changed", "%s: spendable balance changed %v -> %v across a fund+release and a failed fund", label, bal.Spendable, bal2.Spendable)
		}
	}
}

// checkSelection validates the inputs a successful fund-like call selected.
func (r *walletRig) checkSelection(label string, ins []types.SiacoinElement, allowUnconfirmed bool, poolBefore map[types.SiacoinOutputID]bool, resBefore map[types.SiacoinOutputID]string) {
	e := r.e
	seen := map[types.SiacoinOutputID]bool{}
	pooled := map[types.SiacoinOutputID]types.SiacoinOutput{}
	for _, t := range r.s.cm.V2PoolTransactions() {
		id := t.ID()
		for i, o := range t.SiacoinOutputs {
			pooled[t.SiacoinOutputID(id, i)] = o
		}
	}
	for _, t := range r.s.cm.PoolTransactions() {
		for i, o := range t.SiacoinOutputs {
			pooled[t.SiacoinOutputID(i)] = o
		}
	}
	for _, in := range ins {
		if seen[in.ID] {
			e.Violationf("C07.selection", "duplicate-input", "%s selected output %v twice", label, in.ID)
		}
		seen[in.ID] = true
		if in.SiacoinOutput.Address != r.me.Addr {
			e.Violationf("C07.selection", "not-owned", "%s selected output %v which does not pay the wallet", label, in.ID)
		}
		if what, ok := resBefore[in.ID]; ok {
			e.Violationf("C07.double-allocation", "reserved:"+what, "%s selected output %v which is still reserved by %s", label, in.ID, what)
		}
		if poolBefore[in.ID] {
			e.Violationf("C07.selection", "pool-spent", "%s selected output %v which a pooled transaction spends", label, in.ID)
		}
		el, onChain := r.tip.L.SC[in.ID]
		switch {
		case onChain:
			if el.MaturityHeight > r.tip.Height {
				e.Violationf("C07.selection", "immature", "%s selected output %v which matures at %d (tip %d)", label, in.ID, el.MaturityHeight, r.tip.Height)
			}
			if el.SiacoinOutput != in.SiacoinOutput {
				e.Violationf("C07.selection", "wrong-value", "%s selected output %v with value %v, the chain says %v", label, in.ID, in.SiacoinOutput.Value, el.SiacoinOutput.Value)
			}
		case allowUnconfirmed:
			if o, ok := pooled[in.ID]; !ok || o != in.SiacoinOutput {
				e.Violationf("C07.selection", "unknown-output", "%s selected output %v which is neither unspent on chain nor created by a pooled transaction", label, in.ID)
			}
			e.Probe("selected_unconfirmed_output")
		default:
			e.Violationf("C07.selection", "spent-or-unknown", "%s selected output %v which is not an unspent output on the best chain", label, in.ID)
		}
	}
}

func sumEls(ins []types.SiacoinElement) (c types.Currency) {
	for _, in := range ins {
		c = c.Add(in.SiacoinOutput.Value)
	}
	return
}

func (r *walletRig) reserve(what string, ins []types.SiacoinElement) *reservation {
	rv := &reservation{what: what, expires: time.Now().Add(r.resD)}
	for _, in := range ins {
		rv.ids = append(rv.ids, in.ID)
	}
	r.resv = append(r.resv, rv)
	return rv
}

type fundedV2 struct {
	txn    types.V2Transaction
	basis  types.ChainIndex
	toSign []int
	rv     *reservation
}

// fundV2 runs FundV2Transaction with all per-call oracles.
func (r *walletRig) fundV2(amount types.Currency, unconfirmed bool, label string) (*fundedV2, error) {
	e := r.e
	fee := types.ZeroCurrency
	if !amount.IsZero() && e.Chance(1, 2) {
		fee = amount.Div64(uint64(e.Range(10, 1000)))
	}
	var txn types.V2Transaction
	if rest := amount.Sub(fee); !rest.IsZero() {
		txn.SiacoinOutputs = []types.SiacoinOutput{{Address: r.net.Actors[1].Addr, Value: rest}}
	}
	txn.MinerFee = fee
	before := txn.DeepCopy()
	poolBefore, resBefore := r.poolSpent(), r.reserved()
	var balBefore wallet.Balance
	e.Guard("C07.panic", "Balance", func() { balBefore, _ = r.w.Balance() })
	var basis types.ChainIndex
	var toSign []int
	var err error
	e.Guard("C07.panic", "FundV2Transaction", func() { basis, toSign, err = r.w.FundV2Transaction(&txn, amount, unconfirmed) })
	e.Logf("%s FundV2(%v, unconfirmed=%v) -> %d inputs err=%v", label, amount, unconfirmed, len(txn.SiacoinInputs), err)
	if err != nil {
		if fmt.Sprint(gen.Enc(txn)) != fmt.Sprint(gen.Enc(before)) {
			e.Violationf("C07.failed-reserves-nothing", "txn-modified", "%s: a failed FundV2Transaction modified the transaction", label)
		}
		var bal wallet.Balance
		e.Guard("C07.panic", "Balance", func() { bal, _ = r.w.Balance() })
		if bal != balBefore {
			e.Violationf("C07.failed-reserves-nothing", "balance-changed", "%s: a failed FundV2Transaction changed the balance %+v -> %+v", label, balBefore, bal)
		}
		return nil, err
	}
	var ins []types.SiacoinElement
	for _, in := range txn.SiacoinInputs {
		ins = append(ins, in.Parent)
	}
	if len(toSign) != len(ins) {
		e.Violationf("C07.selection", "to-sign", "%s: %d inputs added but %d indices to sign", label, len(ins), len(toSign))
	}
	r.checkSelection(label, ins, unconfirmed, poolBefore, resBefore)
	// selected inputs == amount + change
	var change types.Currency
	newOuts := txn.SiacoinOutputs[len(before.SiacoinOutputs):]
	for _, o := range newOuts {
		if o.Address != r.me.Addr {
			e.Violationf("C07.value-conservation", "foreign-change", "%s: funding added an output to a foreign address", label)
		}
		change = change.Add(o.Value)
	}
	if len(newOuts) > 1 {
		e.Violationf("C07.value-conservation", "many-change-outputs", "%s: funding added %d outputs", label, len(newOuts))
	}
	if !sumEls(ins).Equals(amount.Add(change)) {
		e.Violationf("C07.value-conservation", "inputs-vs-amount", "%s: selected inputs sum to %v, amount %v + change %v", label, sumEls(ins), amount, change)
	}
	if amount.IsZero() && len(ins) > 0 {
		e.Violationf("C07.value-conservation", "zero-amount-inputs", "%s: funding a zero amount selected %d inputs", label, len(ins))
	}
	var rv *reservation
	if len(ins) > 0 {
		rv = r.reserve(label, ins)
	}
	walletTip := r.tip
	if r.lagTip != nil {
		walletTip = r.lagTip
	}
	if basis != walletTip.Index() && len(ins) > 0 {
		e.Violationf("C07.selection", "basis", "%s: returned basis %v, the wallet's tip is %v", label, basis, walletTip.Index())
	}
	return &fundedV2{txn: txn, basis: basis, toSign: toSign, rv: rv}, nil
}

// broadcast signs and broadcasts a funded transaction: the pool must accept it.
func (r *walletRig) broadcast(f *fundedV2, label string) {
	e := r.e
	e.Guard("C07.panic", "SignV2Inputs", func() { r.w.SignV2Inputs(&f.txn, f.toSign) })
	var err error
	e.Guard("C07.panic", "BroadcastV2TransactionSet", func() {
		var set []types.V2Transaction
		var basis types.ChainIndex
		basis, set, err = r.s.cm.V2TransactionSet(f.basis, f.txn)
		if err == nil {
			err = r.w.BroadcastV2TransactionSet(basis, set)
		}
	})
	if err != nil && mixedVersionAncestry(r.s.cm, f.txn) {
		// between the allow and require heights a reorg can put a confirmed v1
		// transaction back into the pool underneath a pooled v2 transaction that
		// spends it; the pool takes v1 and v2 sets separately, so nothing built on
		// that v2 transaction can be submitted until the v1 parent is confirmed
		// again. Counted, not judged (see the assumptions).
		e.Probe("funded_on_mixed_version_ancestry")
		e.Guard("C07.panic", "ReleaseInputs", func() { r.w.ReleaseInputs(nil, []types.V2Transaction{f.txn}) })
		r.release(inputIDs(f.txn))
		return
	}
	if err != nil {
		e.Violationf("C07.signed-accepted", "pool-rejects", "%s: the signed transaction funded by the wallet was rejected by the pool: %v", label, err)
	}
	e.Probe("funded_txn_broadcast")
}

// mixedVersionAncestry reports whether the unconfirmed ancestry of txn (through
// pooled v2 transactions) reaches an output created by a pooled v1 transaction.
func mixedVersionAncestry(cm *chain.Manager, txn types.V2Transaction) bool {
	v1out := map[types.SiacoinOutputID]bool{}
	for _, t := range cm.PoolTransactions() {
		for k := range t.SiacoinOutputs {
			v1out[t.SiacoinOutputID(k)] = true
		}
	}
	creator := map[types.SiacoinOutputID]types.V2Transaction{}
	for _, t := range cm.V2PoolTransactions() {
		id := t.ID()
		for k := range t.SiacoinOutputs {
			creator[t.SiacoinOutputID(id, k)] = t
		}
	}
	seen := map[types.TransactionID]bool{}
	var walk func(t types.V2Transaction) bool
	walk = func(t types.V2Transaction) bool {
		if seen[t.ID()] {
			return false
		}
		seen[t.ID()] = true
		for _, in := range t.SiacoinInputs {
			if in.Parent.StateElement.LeafIndex != types.UnassignedLeafIndex {
				continue
			}
			if v1out[in.Parent.ID] {
				return true
			}
			if p, ok := creator[in.Parent.ID]; ok && walk(p) {
				return true
			}
		}
		return false
	}
	return walk(txn)
}

func (r *walletRig) mine(n int) {
	for i := 0; i < n; i++ {
		p := snapPool(r.e, "C07", r.s.cm)
		cs := r.tip.L.State
		var w uint64
		var bt []types.Transaction
		var bv []types.V2Transaction
		for _, t := range p.v1 {
			if w += cs.TransactionWeight(t); w > cs.MaxBlockWeight() {
				break
			}
			bt = append(bt, t)
		}
		for _, t := range p.v2 {
			if w += cs.V2TransactionWeight(t); w > cs.MaxBlockWeight() {
				break
			}
			bv = append(bv, t)
		}
		miner := r.me.Addr
		if r.e.Chance(1, 3) {
			miner = types.VoidAddress
		}
		blk := gen.AssembleBlock(r.e, r.net, cs, r.tree.Timestamp(r.e, r.tip, r.now, false), miner, bt, bv, true)
		n, err := r.tree.AddForeign(r.tip, blk)
		if err != nil {
			r.e.Violationf("C07.pool-minable", "block-invalid", "a block assembled from the pool is invalid: %v", err)
		}
		if err := r.s.cm.AddBlocks([]types.Block{blk}); err != nil {
			r.e.Violationf("C07.pool-minable", "block-rejected", "a block assembled from the pool was rejected: %v", err)
		}
		r.tip = n
	}
	r.sync()
}

func newWalletRig(e *sim.Env, regimes []string) *walletRig {
	now := time.Now()
	net := gen.NewNet(e, now, gen.NetOpts{MaxHeight: 120, Regime: regimes[e.Intn(len(regimes))], AllowLo: 2, AllowHi: 16})
	r := &walletRig{e: e, net: net, tree: gen.NewTree(net), me: net.Actors[0], now: now}
	r.s = newChainSUT(e, net, simdisk.New())
	r.st, r.sy = newWalletStore(), &recSyncer{}
	r.resD = []time.Duration{time.Second, time.Minute, time.Hour, 3 * time.Hour, 6 * time.Hour}[e.Intn(5)]
	r.opts = []wallet.Option{
		wallet.WithDefragThreshold(e.Range(0, 40)),
		wallet.WithMaxInputsForDefrag(e.Range(0, 40)),
		wallet.WithMaxDefragUTXOs(e.Range(0, 12)),
		wallet.WithReservationDuration(r.resD),
	}
	r.w = newWallet(e, "C07", r.me, r.s, r.st, r.sy, r.opts...)
	e.OnCleanup(func() { r.w.Close() })
	r.bo = gen.BlockOpts{Mix: gen.PayMix, MaxTx: 3, OrderSafe: true, Now: now, Strict: genStrict, Payee: &r.me.Addr}
	r.tip = r.tree.Genesis
	// a chain in which the wallet mines and gets paid, long enough for some maturity
	n := e.Range(int(net.Network.MaturityDelay)+2, int(net.Network.MaturityDelay)+12)
	for i := 0; i < n; i++ {
		bo := r.bo
		bo.Miner = []types.Address{r.me.Addr, r.me.Addr, types.VoidAddress}[e.Intn(3)]
		r.tip = r.tree.Extend(e, r.tip, bo)
		if err := r.s.cm.AddBlocks([]types.Block{r.tip.Block}); err != nil {
			e.Violationf("C07.valid-accepted", "setup", "setup block rejected: %v", err)
		}
	}
	r.sync()
	return r
}

func runC07(e *sim.Env) {
	r := newWalletRig(e, []string{"overlap", "v2", "v2"})
	e.Shape("net", r.net.Regime, r.resD.String())
	var outstanding []*fundedV2
	steps := e.Range(10, 40)
	for i := 0; i < steps; i++ {
		e.Step()
		v2ok := r.tip.Height+1 >= r.net.Allow()
		op := e.Pick(8, 3, 3, 3, 2, 2, 2, 1, 2, 2, 2, 2)
		label := fmt.Sprintf("op%d", i)
		switch op {
		case 10: // fund while the wallet has not heard of the newest blocks yet
			if !v2ok {
				continue
			}
			// (empty blocks: what the wallet believes unspent stays unspent)
			r.lagTip = r.tip
			for j, k := 0, e.Range(1, 5); j < k; j++ {
				r.tip = r.tree.Extend(e, r.tip, gen.BlockOpts{Now: r.now, Miner: types.VoidAddress})
				if err := r.s.cm.AddBlocks([]types.Block{r.tip.Block}); err != nil {
					e.Violationf("C07.valid-accepted", "block", "empty block rejected: %v", err)
				}
			}
			var bal wallet.Balance
			e.Guard("C07.panic", "Balance", func() { bal, _ = r.w.Balance() })
			if amount := bal.Spendable.Div64(uint64(e.Range(1, 20))); !amount.IsZero() {
				f, err := r.fundV2(amount, false, label+" (wallet behind the chain)")
				e.Shape("fund-lagging", fmt.Sprint(err != nil))
				if err == nil && len(f.txn.SiacoinInputs) > 0 {
					r.broadcast(f, label+" (wallet behind the chain)")
					e.Fault("funded-while-wallet-behind-chain")
				}
			}
			r.lagTip = nil
			r.sync()
		case 0: // fund
			if !v2ok {
				r.mine(1)
				continue
			}
			sp, _ := r.modelSpendable()
			var amount types.Currency
			switch e.Pick(1, 1, 2, 2, 6) {
			case 0:
				amount = types.ZeroCurrency
			case 1:
				amount = types.NewCurrency64(1)
			case 2:
				amount = sp
			case 3:
				amount = sp.Add(types.NewCurrency64(1))
			default:
				amount = sp.Div64(uint64(e.Range(2, 20)))
			}
			f, err := r.fundV2(amount, e.Chance(1, 3), label)
			e.Shape("fund", fmt.Sprint(err != nil))
			if err == nil && len(f.txn.SiacoinInputs) > 0 {
				switch e.Pick(2, 2, 1) {
				case 0:
					r.broadcast(f, label)
				case 1:
					outstanding = append(outstanding, f)
				case 2:
					e.Guard("C07.panic", "ReleaseInputs", func() { r.w.ReleaseInputs(nil, []types.V2Transaction{f.txn}) })
					r.release(inputIDs(f.txn))
				}
			}
		case 1: // release or broadcast an outstanding one
			if len(outstanding) == 0 {
				continue
			}
			k := e.Intn(len(outstanding))
			f := outstanding[k]
			outstanding = append(outstanding[:k], outstanding[k+1:]...)
			if e.Chance(1, 2) && f.basis == r.tip.Index() {
				// only if none of its inputs was re-allocated after its reservation expired
				// its own reservation must still hold (an expired one may have been re-allocated)
				stillMine := f.rv != nil && time.Now().Before(f.rv.expires) && len(f.rv.ids) == len(f.txn.SiacoinInputs)
				ps := r.poolSpent()
				for _, id := range inputIDs(f.txn) {
					if ps[id] {
						stillMine = false
					}
				}
				if stillMine {
					r.broadcast(f, label+" (outstanding)")
					e.Shape("broadcast-late")
					break
				}
			}
			e.Guard("C07.panic", "ReleaseInputs", func() { r.w.ReleaseInputs(nil, []types.V2Transaction{f.txn}) })
			r.release(inputIDs(f.txn))
			e.Shape("release")
		case 2: // redistribute
			if !v2ok {
				continue
			}
			sp, _ := r.modelSpendable()
			outs := e.Range(1, 25)
			amt := sp.Div64(uint64(outs * e.Range(1, 4)))
			if amt.IsZero() {
				continue
			}
			poolBefore, resBefore := r.poolSpent(), r.reserved()
			var basis types.ChainIndex
			var txns []types.V2Transaction
			var toSign [][]int
			var err error
			fee := types.Siacoins(1).Div64(uint64(e.Range(1000, 100000)))
			e.Guard("C07.panic", "Redistribute", func() { basis, txns, toSign, err = r.w.Redistribute(outs, amt, fee) })
			e.Logf("%s Redistribute(%d x %v) -> %d txns err=%v", label, outs, amt, len(txns), err)
			e.Shape("redistribute", fmt.Sprint(err != nil), bucket(len(txns)))
			if err != nil || len(txns) == 0 {
				continue
			}
			var all []types.SiacoinElement
			for _, t := range txns {
				var ins []types.SiacoinElement
				var outSum types.Currency
				for _, in := range t.SiacoinInputs {
					ins = append(ins, in.Parent)
				}
				for _, o := range t.SiacoinOutputs {
					if o.Address != r.me.Addr {
						e.Violationf("C07.value-conservation", "redistribute-foreign", "%s: redistribution pays a foreign address", label)
					}
					outSum = outSum.Add(o.Value)
				}
				if !sumEls(ins).Equals(outSum.Add(t.MinerFee)) {
					e.Violationf("C07.value-conservation", "redistribute-sum", "%s: redistribution inputs %v != outputs %v + fee %v", label, sumEls(ins), outSum, t.MinerFee)
				}
				all = append(all, ins...)
			}
			r.checkSelection(label+" redistribute", all, false, poolBefore, resBefore)
			r.reserve(label+" redistribute", all)
			if e.Chance(2, 3) {
				for k := range txns {
					r.broadcast(&fundedV2{txn: txns[k], basis: basis, toSign: toSign[k]}, label+" redistribute")
				}
			} else {
				e.Guard("C07.panic", "ReleaseInputs", func() { r.w.ReleaseInputs(nil, txns) })
				for _, t := range txns {
					r.release(inputIDs(t))
				}
			}
		case 3: // split (also below the v2 allow height, where the pool refuses it)
			sp, _ := r.modelSpendable()
			n := e.Range(2, 12)
			min := sp.Div64(uint64(n * e.Range(2, 6)))
			if min.IsZero() {
				continue
			}
			poolBefore, resBefore := r.poolSpent(), r.reserved()
			var balBefore wallet.Balance
			e.Guard("C07.panic", "Balance", func() { balBefore, _ = r.w.Balance() })
			var txn types.V2Transaction
			var err error
			e.Guard("C07.panic", "SplitUTXO", func() { txn, err = r.w.SplitUTXO(n, min) })
			e.Logf("%s SplitUTXO(%d, %v) (v2 allowed: %v) -> %d inputs err=%v", label, n, min, v2ok, len(txn.SiacoinInputs), err)
			e.Shape("split", fmt.Sprint(err != nil), fmt.Sprint(len(txn.SiacoinInputs) > 0), fmt.Sprint(v2ok))
			if err != nil {
				// a failed request reserves nothing
				var bal wallet.Balance
				e.Guard("C07.panic", "Balance", func() { bal, _ = r.w.Balance() })
				if bal != balBefore {
					e.Violationf("C07.failed-reserves-nothing", "split:balance-changed", "%s: a failed SplitUTXO (%v) changed the balance %+v -> %+v", label, err, balBefore, bal)
				}
				e.Probe("split_failed")
				break
			}
			if len(txn.SiacoinInputs) == 0 {
				break
			}
			var ins []types.SiacoinElement
			var outSum types.Currency
			for _, in := range txn.SiacoinInputs {
				ins = append(ins, in.Parent)
			}
			for _, o := range txn.SiacoinOutputs {
				outSum = outSum.Add(o.Value)
			}
			if !sumEls(ins).Equals(outSum.Add(txn.MinerFee)) {
				e.Violationf("C07.value-conservation", "split-sum", "%s: split inputs %v != outputs %v + fee %v", label, sumEls(ins), outSum, txn.MinerFee)
			}
			r.checkSelection(label+" split", ins, true, poolBefore, resBefore)
			r.reserve(label+" split", ins)
			if _, ok := snapPool(e, "C07", r.s.cm).ids[txn.ID()]; !ok {
				e.Violationf("C07.signed-accepted", "split-not-pooled", "%s: SplitUTXO returned a transaction that is not in the pool", label)
			}
		case 4: // a block confirms the pool
			r.mine(e.Range(1, 2))
			e.Shape("mine")
		case 5: // the clock moves, possibly past the reservation period
			d := []time.Duration{r.resD / 2, r.resD - time.Millisecond, r.resD + time.Millisecond, 2 * r.resD, time.Second}[e.Intn(5)]
			time.Sleep(d)
			e.Fault("clock-jump")
			e.Shape("clock", fmt.Sprint(d >= r.resD))
			e.Nontrivial = true
		case 6: // reorg: a heavier branch without the recent blocks
			back := e.Range(1, int(min(r.tip.Height, 4)))
			x := r.tip.Ancestor(r.tip.Height - uint64(back))
			for k := 0; k < back+2; k++ {
				bo := r.bo
				bo.MaxTx = 0
				bo.Miner = types.VoidAddress
				x = r.tree.Extend(e, x, bo)
			}
			if err := r.s.cm.AddBlocks(blocksOf(x.PathFromGenesis()[1:])); err != nil {
				e.Violationf("C07.valid-accepted", "reorg", "valid heavier branch rejected: %v", err)
			}
			r.sync()
			e.Fault("reorg")
			e.Shape("reorg", bucket(back))
			e.Nontrivial = true
			// funded-but-unbroadcast transactions keep their reservations; their bases are stale now
			for _, f := range outstanding {
				f.basis = types.ChainIndex{}
			}
		case 7: // restart: new manager on the same database (empty pool), new wallet on the same store
			e.Guard("C07.panic", "Close", func() { r.w.Close() })
			img := r.s.disk.Committed()
			ns, err := reopenChainSUT(r.net, simdisk.FromImage(img))
			if err != nil {
				e.Violationf("C07.reopen", "error", "reopen failed: %v", err)
			}
			r.s = ns
			r.w = newWallet(e, "C07", r.me, r.s, r.st, r.sy, r.opts...)
			w := r.w
			e.OnCleanup(func() { w.Close() })
			r.resv = nil // reservations live in memory only
			outstanding = nil
			r.sync()
			e.Fault("restart")
			e.Shape("restart")
			e.Nontrivial = true
		case 9: // several callers fund at the same time
			if !v2ok {
				continue
			}
			sp, _ := r.modelSpendable()
			k := e.Range(2, 4)
			type job struct {
				amount      types.Currency
				unconfirmed bool
				txn, before types.V2Transaction
				basis       types.ChainIndex
				toSign      []int
				err         error
				crash       string
			}
			var jobs []*job
			for j := 0; j < k; j++ {
				var amount types.Currency
				switch e.Pick(1, 2, 2, 4) {
				case 0:
					amount = sp
				case 1:
					amount = sp.Div64(2).Add(types.NewCurrency64(1)) // two of these cannot both succeed
				case 2:
					amount = sp.Div64(uint64(k))
				default:
					amount = sp.Div64(uint64(e.Range(2, 20)))
				}
				jb := &job{amount: amount, unconfirmed: e.Chance(1, 4)}
				if !amount.IsZero() {
					jb.txn.SiacoinOutputs = []types.SiacoinOutput{{Address: r.net.Actors[1].Addr, Value: amount}}
				}
				jb.before = jb.txn.DeepCopy()
				jobs = append(jobs, jb)
			}
			// one of the callers may be a SplitUTXO (selects, signs and broadcasts in
			// one call) racing with the funding calls
			splitN, splitMin := 0, types.ZeroCurrency
			if e.Chance(1, 2) && !sp.IsZero() {
				splitN = e.Range(2, 8)
				splitMin = sp.Div64(uint64(splitN * e.Range(2, 6)))
			}
			var splitTxn types.V2Transaction
			var splitErr error
			var splitCrash string
			poolBefore, resBefore := r.poolSpent(), r.reserved()
			// the store seam sits inside the wallet's critical section: yielding
			// there lets every other caller run up to the wallet's lock
			r.st.yield = sim.YieldPoint
			// in the lock-yield flavour every Lock / Unlock inside the wallet and
			// the manager is a seeded scheduling point as well
			e.WithSchedule(200, func() {
				var wg sync.WaitGroup
				for _, jb := range jobs {
					jb := jb
					wg.Add(1)
					go func() {
						defer wg.Done()
						defer func() {
							if x := recover(); x != nil {
								jb.crash = fmt.Sprintf("%v\n%s", x, debug.Stack())
							}
						}()
						jb.basis, jb.toSign, jb.err = r.w.FundV2Transaction(&jb.txn, jb.amount, jb.unconfirmed)
					}()
				}
				if splitN > 0 && !splitMin.IsZero() {
					wg.Add(1)
					go func() {
						defer wg.Done()
						defer func() {
							if x := recover(); x != nil {
								splitCrash = fmt.Sprintf("%v\n%s", x, debug.Stack())
							}
						}()
						splitTxn, splitErr = r.w.SplitUTXO(splitN, splitMin)
					}()
				}
				wg.Wait()
			})
			r.st.yield = nil
			if splitCrash != "" {
				if sim.PanicInSUT(splitCrash) {
					e.Violationf("C07.panic", "concurrent-split", "SplitUTXO panicked under concurrent use: %.1500s", splitCrash)
				}
				panic("C07 concurrent phase: " + splitCrash)
			}
			e.Fault("concurrent-funding")
			e.Nontrivial = true
			claimed := map[types.SiacoinOutputID]int{}
			ok := 0
			for ji, jb := range jobs {
				lbl := fmt.Sprintf("%s concurrent#%d", label, ji)
				if jb.crash != "" {
					if sim.PanicInSUT(jb.crash) {
						e.Violationf("C07.panic", "concurrent-fund", "FundV2Transaction panicked under concurrent use: %.1500s", jb.crash)
					}
					panic("C07 concurrent phase: " + jb.crash)
				}
				e.Logf("%s FundV2(%v, unconfirmed=%v) -> %d inputs err=%v", lbl, jb.amount, jb.unconfirmed, len(jb.txn.SiacoinInputs), jb.err)
				if jb.err != nil {
					if fmt.Sprint(gen.Enc(jb.txn)) != fmt.Sprint(gen.Enc(jb.before)) {
						e.Violationf("C07.failed-reserves-nothing", "txn-modified", "%s: a failed FundV2Transaction modified the transaction", lbl)
					}
					continue
				}
				ok++
				var ins []types.SiacoinElement
				for _, in := range jb.txn.SiacoinInputs {
					ins = append(ins, in.Parent)
					if other, dup := claimed[in.Parent.ID]; dup {
						e.Violationf("C07.double-allocation", "concurrent-callers", "two concurrent FundV2Transaction calls (#%d and #%d of %d) were both given output %v", other, ji, len(jobs), in.Parent.ID)
					}
					claimed[in.Parent.ID] = ji
				}
				r.checkSelection(lbl, ins, jb.unconfirmed, poolBefore, resBefore)
				var change types.Currency
				for _, o := range jb.txn.SiacoinOutputs[len(jb.before.SiacoinOutputs):] {
					change = change.Add(o.Value)
				}
				if !sumEls(ins).Equals(jb.amount.Add(change)) {
					e.Violationf("C07.value-conservation", "inputs-vs-amount", "%s: selected inputs sum to %v, amount %v + change %v", lbl, sumEls(ins), jb.amount, change)
				}
				if len(ins) > 0 {
					rv := r.reserve(lbl, ins)
					outstanding = append(outstanding, &fundedV2{txn: jb.txn, basis: jb.basis, toSign: jb.toSign, rv: rv})
				}
			}
			if splitN > 0 && splitErr == nil && len(splitTxn.SiacoinInputs) > 0 {
				var ins []types.SiacoinElement
				for _, in := range splitTxn.SiacoinInputs {
					ins = append(ins, in.Parent)
					if other, dup := claimed[in.Parent.ID]; dup {
						e.Violationf("C07.double-allocation", "concurrent-split-and-fund", "a SplitUTXO running concurrently with FundV2Transaction call #%d spends output %v, which that call was given too", other, in.Parent.ID)
					}
				}
				r.checkSelection(label+" concurrent split", ins, true, poolBefore, resBefore)
				r.reserve(label+" concurrent split", ins)
				e.Probe("concurrent_split_succeeded")
			}
			e.Shape("concurrent-fund", fmt.Sprint(len(jobs)), fmt.Sprint(ok))
			if ok >= 2 {
				e.Probe("concurrent_funds_both_succeeded")
			}
		case 8: // a foreign payment to the wallet enters the pool
			if !v2ok {
				continue
			}
			tb := gen.NewTxBuilder(e, r.tip.L)
			tb.Payee = &r.me.Addr
			p := snapPool(e, "C07", r.s.cm)
			tb.Adopt(p.v1, p.v2)
			n0 := len(tb.V2Txns)
			tb.V2Pay(false)
			if len(tb.V2Txns) > n0 {
				t := tb.V2Txns[len(tb.V2Txns)-1]
				spendsMine := false
				for _, in := range t.SiacoinInputs {
					if in.Parent.SiacoinOutput.Address == r.me.Addr {
						spendsMine = true
					}
				}
				if !spendsMine {
					r.s.cm.AddV2PoolTransactions(r.tip.Index(), []types.V2Transaction{t})
				}
			}
			e.Shape("foreign-pay")
		case 11: // a v1 spend of one of the wallet's outputs reaches the pool from elsewhere
			// (a second instance holding the same key, while v1 is still allowed)
			if r.tip.Height+1 >= r.net.Require() {
				continue
			}
			p := snapPool(e, "C07", r.s.cm)
			for try := 0; try < 6; try++ {
				tb := gen.NewTxBuilder(e, r.tip.L)
				tb.Adopt(p.v1, p.v2)
				n0 := len(tb.Txns)
				tb.V1Pay()
				if len(tb.Txns) == n0 {
					continue
				}
				t := tb.Txns[len(tb.Txns)-1]
				mine := len(t.SiacoinInputs) > 0
				for _, in := range t.SiacoinInputs {
					if in.UnlockConditions.UnlockHash() != r.me.Addr {
						mine = false
					}
				}
				if !mine {
					continue
				}
				if _, err := r.s.cm.AddPoolTransactions([]types.Transaction{t}); err == nil {
					e.Fault("v1-spend-of-wallet-output-pooled")
					e.Shape("v1-spend-elsewhere")
				}
				break
			}
		}
		r.agreement(label)
	}
}

func inputIDs(t types.V2Transaction) (ids []types.SiacoinOutputID) {
	for _, in := range t.SiacoinInputs {
		ids = append(ids, in.Parent.ID)
	}
	return
}

var _ = chain.ErrMissingBlock

func init() {
	register(&Prop{
		ID: "C07", Run: runC07, Race: true, Flavour: "instrumented", Quick: 700, Thorough: 20000, Level: "exploration",
		Rule:        "one run = drawn wallet options (defrag threshold 0-40, max inputs for defrag 0-40, max defrag outputs 0-12, reservation 1s-6h) and a chain that leaves the wallet with mature, immature, pool-spent and unconfirmed outputs; then 10-40 drawn operations: FundV2Transaction (0, 1H, exactly spendable, spendable+1H, drawn; with/without unconfirmed), sign+broadcast / keep outstanding / release, Redistribute, SplitUTXO, blocks confirming the pool, clock jumps around the reservation period, reorgs, restart (new manager with empty pool + new wallet on the same store re-loading broadcast sets), foreign payments into the pool, v1 spends of the wallet's own outputs reaching the pool from elsewhere (before the require height), and 2-4 FundV2Transaction calls (in half of the cases together with a SplitUTXO) issued from concurrent goroutines (amounts that cannot all succeed; a seeded scheduler decides who proceeds at the store seam and, in the instrumented flavour, at every Lock / Unlock), whose results must be pairwise disjoint; after every operation: selection rules (owned, mature, unspent, not pool-spent, not reserved by an outstanding request), value conservation, failed calls change nothing, signed results accepted by the pool, and Balance().Spendable == sum(SpendableOutputs()) == independent model == largest fundable amount; distinct = abstract trace; non-trivial = a clock jump, reorg or restart",
		Real:        []string{"wallet.SingleAddressWallet (funding, signing, redistribute, split, release, broadcast, restart)", "chain.Manager", "chain.DBStore"},
		Stub:        []string{"wallet store: harness walletStore", "syncer: recording stub", "disk: simdisk.DB"},
		Assumptions: []string{"a funded v2 transaction whose unconfirmed ancestry reaches a pooled v1 transaction (only between the allow and require heights, after a reorg un-confirmed the v1 parent of a pooled v2 transaction) cannot be submitted through the version-separated pool API; such cases are counted (probe funded_on_mixed_version_ancestry), not judged", "concurrent callers are interleaved at the wallet-store seam only (a seeded scheduling point inside the store call the wallet makes while holding its lock); in the lock-yield flavour every Lock / Unlock of the wallet's and the manager's mutexes is one too; other lock-level interleavings are not explored"},
	})
}
