package props

import (
	"context"
	"fmt"
	"go.sia.tech/core/consensus"
	"go.sia.tech/core/gateway"
	"go.sia.tech/coreutils/chain"
	"sort"
	"time"

	"go.sia.tech/core/types"
	"go.sia.tech/coreutils/syncer"

	"verif/gen"
	"verif/sim"
	"verif/simdisk"
	"verif/simnet"
)

// netFaults injects partitions, heals and resets between the given hosts for
// the given simulated duration, then heals everything.
func netFaults(e *sim.Env, nw *simnet.Net, hosts []string, d time.Duration) {
	end := time.Now().Add(d)
	for time.Now().Before(end) {
		time.Sleep(time.Duration(e.Range(200, 5000)) * time.Millisecond)
		if len(hosts) < 2 {
			continue
		}
		a := hosts[e.Intn(len(hosts))]
		b := hosts[e.Intn(len(hosts))]
		if a == b {
			continue
		}
		switch e.Pick(3, 2, 2) {
		case 0:
			nw.Partition(a, b)
			e.Fault("net-partition")
		case 1:
			nw.Heal(a, b)
			e.Fault("net-heal")
		case 2:
			if nw.ResetBetween(a, b) > 0 {
				e.Fault("net-reset")
			}
		}
	}
	nw.HealAll()
}

func runC12(e *sim.Env) {
	now := time.Now()
	net := gen.NewNet(e, now, gen.NetOpts{MaxHeight: 400})
	tree := gen.NewTree(net)
	e.Shape("net", net.Regime)
	bo := gen.BlockOpts{Mix: gen.FullMix, MaxTx: e.Range(0, 3), OrderSafe: true, Now: now, Strict: genStrict}
	long := e.Chance(1, 8)
	tree.Grow(e, gen.GrowOpts{Blocks: e.Range(6, 40), Block: bo, LongFork: true, MinerPool: []types.Address{types.VoidAddress, net.Actors[0].Addr}})
	if long {
		// a stretch beyond the 100-block request split and the exponential history sample
		tip := tree.Heaviest()
		for i, n := 0, e.Range(90, 230); i < n; i++ {
			tip = tree.ExtendHeaderOnly(e, tip, gen.BlockOpts{Now: now, Miner: types.VoidAddress, MinGap: true})
		}
		e.Shape("long")
	}
	dominant := tree.MakeDominant(e, bo)

	nw := simnet.New(simnet.Config{Seed: e.Seed, MinLatency: time.Duration(e.Range(1, 40)) * time.Millisecond, Jitter: time.Duration(e.Range(0, 300)) * time.Millisecond})
	e.OnCleanup(nw.Shutdown)
	k := e.Range(2, 5)
	maxSend := uint64([]int{1, 3, 10, 100}[e.Intn(4)])
	// 1 run in 4: the drawn topology stays as it is (no peer discovery, no
	// faults): blocks reach nodes that are not connected to their source only
	// through the relays
	static := e.Chance(1, 4)
	// 1 run in 6 (with three or more nodes): a hub that is behind everybody else
	// in a static star, so that it syncs from peers on different forks at once
	contest := k >= 3 && e.Chance(1, 6)
	if contest {
		static = true
		e.Shape("contest")
	}
	if static {
		e.Shape("static")
	}
	nodeOpts := func() []syncer.Option {
		// every node has its own timers (real nodes never tick in lockstep)
		disc := time.Duration(e.Range(500, 5000)) * time.Millisecond
		if static {
			disc = 3 * time.Hour
		}
		return []syncer.Option{
			syncer.WithSyncInterval(time.Duration(e.Range(100, 5000)) * time.Millisecond),
			syncer.WithPeerDiscoveryInterval(disc),
			syncer.WithMaxSendBlocks(maxSend),
			// never below what the drawn topology needs: a full node refusing a
			// planned link would leave the network disconnected by configuration
			// (the caps themselves are C18's subject)
			// (k-1 links of the drawn topology plus up to two checkpoint leaves)
			syncer.WithMaxOutboundPeers(e.Range(max(2, k+1), 8)),
			syncer.WithMaxInboundPeers(e.Range(max(2, k+1), 8)),
		}
	}
	var nodes []*netNode
	var hosts []string
	tips := tree.ValidTips()
	for i := 0; i < k; i++ {
		s := newChainSUT(e, net, simdisk.New())
		time.Sleep(time.Duration(e.Range(1, 900)) * time.Millisecond) // nodes do not start at the same instant
		var ncm syncer.ChainManager
		if e.Chance(1, 3) {
			// a slow node: some of its header responses leave late
			ncm = &stallingCM{ChainManager: s.cm, every: e.Range(1, 4), stall: time.Duration(e.Range(20, 2000)) * time.Millisecond}
			e.Fault("slow-header-responses")
		}
		n := newNetNode(e, "C12", net, nw, i+1, ncm, s, nodeOpts()...)
		nodes = append(nodes, n)
		hosts = append(hosts, n.host)
		nn := n
		e.OnCleanup(nn.close)
		// every node holds its own branch; one of them holds the dominant chain
		target := tips[e.Intn(len(tips))]
		if e.Chance(1, 3) {
			// an interior block: a node that stopped earlier
			for j, back := 0, e.Range(0, 6); j < back && target.Parent != nil; j++ {
				target = target.Parent
			}
		}
		if i == 0 {
			target = dominant
		}
		if contest && i == 1 {
			for j, back := 0, e.Range(3, 20); j < back && target.Parent != nil; j++ {
				target = target.Parent
			}
		}
		feed(e, "C12", n, target)
		e.Logf("%s starts on %s", n.name, target.Describe())
	}
	// nodes bootstrapped from a v2 checkpoint on the heaviest chain: leaves hanging
	// off a drawn full node (they have no history below the checkpoint to serve)
	type cpLink struct {
		n    *netNode
		full *netNode
	}
	var cpNodes []cpLink
	if lo := net.Require() + 1; dominant.Height > lo+1 && e.Chance(1, 3) {
		for i, cnt := 0, e.Range(1, 2); i < cnt; i++ {
			cp := dominant.Ancestor(uint64(e.Range(int(lo), int(dominant.Height)-1)))
			if cp.Block.V2 == nil || !cp.Valid() || cp.Parent == nil {
				continue
			}
			st := cp.Parent.L.State
			disk := simdisk.New()
			var dbs *chain.DBStore
			var tipState consensus.State
			var err error
			e.Guard("C12.panic", "NewDBStoreAtCheckpoint", func() { dbs, tipState, err = chain.NewDBStoreAtCheckpoint(disk, st, cp.Block, nil) })
			if err != nil {
				e.Violationf("C12.checkpoint", "store-refused", "NewDBStoreAtCheckpoint refused the genuine checkpoint %v: %v", cp.Index(), err)
			}
			rs := &recStore{DBStore: dbs}
			cs := &chainSUT{net: net, db: disk, disk: disk, store: rs, cm: chain.NewManager(rs, tipState)}
			time.Sleep(time.Duration(e.Range(1, 900)) * time.Millisecond)
			// a full peer drops a peer it shares no sampled history with ("no common
			// history") - which a freshly bootstrapped node is until it has synced -
			// so the leaf keeps its normal peer loop (it only knows its one full
			// node, the drawn topology stays as it is)
			// ... and a short sync interval, so that its own first sync tick usually
			// comes before the full node's (which ends in the disconnect); see also
			// the reconnect loop below
			n := newNetNode(e, "C12", net, nw, 20+i, nil, cs, append(nodeOpts(), syncer.WithPeerDiscoveryInterval(time.Duration(e.Range(500, 5000))*time.Millisecond), syncer.WithSyncInterval(time.Duration(e.Range(100, 300))*time.Millisecond))...)
			n.cpHeight = cp.Height
			nn := n
			e.OnCleanup(nn.close)
			cpNodes = append(cpNodes, cpLink{n, nodes[e.Intn(len(nodes))]})
			hosts = append(hosts, n.host)
			e.Logf("%s starts from checkpoint %s", n.name, cp.Describe())
			e.Fault("checkpoint-node")
		}
	}
	// topology
	var edges [][2]int
	topo := []string{"line", "star", "ring", "clique"}[e.Intn(4)]
	if contest {
		topo = "star"
	}
	switch topo {
	case "line":
		for i := 0; i+1 < k; i++ {
			edges = append(edges, [2]int{i, i + 1})
		}
	case "star":
		c := e.Intn(k)
		if contest {
			c = 1
		}
		for i := 0; i < k; i++ {
			if i != c {
				edges = append(edges, [2]int{c, i})
			}
		}
	case "ring":
		for i := 0; i < k; i++ {
			if k > 2 || i == 0 {
				edges = append(edges, [2]int{i, (i + 1) % k})
			}
		}
	case "clique":
		for i := 0; i < k; i++ {
			for j := i + 1; j < k; j++ {
				edges = append(edges, [2]int{i, j})
			}
		}
	}
	e.Shape("topo", topo, fmt.Sprint(k))
	order := e.Perm(len(edges))
	connect := func() {
		for _, oi := range order {
			a, b := nodes[edges[oi][0]], nodes[edges[oi][1]]
			if e.Chance(1, 2) {
				a, b = b, a
			}
			// make the link known to the dialling side so that its peer loop
			// re-establishes it after a reset (the other side learns the address
			// from the handshake)
			// (not in static runs: the peer loop's very first pass would dial the
			// same address at the same moment as the Connect below, the two
			// connections can cancel each other out, and with discovery off nobody
			// would dial again)
			if !static {
				a.ps.AddPeer(b.addr)
			}
			ctx, cancel := context.WithTimeout(context.Background(), 5*time.Second)
			p, err := a.sy.Connect(ctx, b.addr)
			cancel()
			e.Logf("connect %s -> %s: err=%v", a.name, b.name, err)
			time.Sleep(time.Duration(e.Range(0, 1500)) * time.Millisecond)
			if e.Verbose && p != nil {
				pp := p
				go func() {
					for i := 0; i < 20; i++ {
						time.Sleep(2 * time.Second)
						if err := pp.Err(); err != nil {
							e.Logf("peer %v died: %v", pp, err)
							return
						}
					}
				}()
			}
		}
	}
	// 1 run in 3 (above the require height): the node on the heaviest chain
	// keeps finding blocks while the others are still syncing from it, and
	// announces each one; the goal moves with it
	var earlyErr error
	if dominant.L.State.Index.Height >= net.Require() && e.Chance(1, 3) {
		var exts []*gen.Node
		var delays []time.Duration
		var hows []int
		t := dominant
		for i, kk := 0, e.Range(1, 4); i < kk; i++ {
			t = tree.Extend(e, t, bo)
			exts = append(exts, t)
			delays = append(delays, time.Duration(e.Range(50, 5000))*time.Millisecond)
			// (outlines only: a relayed header bounces between interconnected nodes
			// that are still syncing until its block is known everywhere, DESIGN 12.7)
			hows = append(hows, 2)
		}
		if t.Block.V2 != nil {
			miner := nodes[0]
			go func() {
				for i, x := range exts {
					time.Sleep(delays[i])
					if err := miner.s.cm.AddBlocks([]types.Block{x.Block}); err != nil {
						earlyErr = err
						return
					}
					switch hows[i] {
					case 0:
						miner.sy.BroadcastV2Header(x.Block.Header())
					case 1:
						miner.sy.BroadcastV2Header(x.Block.Header())
						miner.sy.BroadcastV2BlockOutline(gateway.OutlineBlock(x.Block, nil, nil))
					case 2:
						miner.sy.BroadcastV2BlockOutline(gateway.OutlineBlock(x.Block, nil, nil))
					}
				}
			}()
			dominant = t
			e.Fault("blocks-found-during-sync")
		}
	}
	connect()
	for _, l := range cpNodes {
		l.n.ps.AddPeer(l.full.addr)
		ctx, cancel := context.WithTimeout(context.Background(), 5*time.Second)
		_, err := l.n.sy.Connect(ctx, l.full.addr)
		cancel()
		e.Logf("connect %s -> %s: err=%v", l.n.name, l.full.name, err)
		nodes = append(nodes, l.n)
		// the operator's side of a bootstrap: dial the known full node again when
		// the leaf is alone (the syncer's own loop retries an address only every
		// five minutes, and every attempt races with the full node's disconnect)
		redialWhenAlone(e, l.n, l.full.addr)
	}
	// faults for a while, then none
	if e.Chance(2, 3) && !static {
		netFaults(e, nw, hosts, time.Duration(e.Range(2, 40))*time.Second)
		e.Nontrivial = true
	}
	nw.HealAll()
	// bounded liveness: once faults have stopped every node ends on the heaviest valid chain
	awaitAll := func(goal *gen.Node, what string) {
		deadline := time.Now().Add(45 * time.Minute)
		converged := false
		for time.Now().Before(deadline) {
			time.Sleep(5 * time.Second)
			all := true
			for _, n := range nodes {
				auditNode(e, "C12", n, tree)
				if n.s.cm.Tip() != goal.Index() {
					all = false
				}
			}
			if all {
				converged = true
				break
			}
		}
		for _, n := range nodes {
			if ps := n.panics(); len(ps) > 0 {
				e.Violationf("C12.panic", "rpc-handler-panic", "%s recovered a panic in an RPC handler: %s", n.name, ps[0])
			}
		}
		if !converged {
			var where []string
			for _, n := range nodes {
				t := tree.ByID[n.s.cm.Tip().ID]
				var ps []string
				for _, p := range n.sy.Peers() {
					ps = append(ps, fmt.Sprintf("%s synced=%v err=%v", p.Addr(), p.Synced(), p.Err()))
				}
				sort.Strings(ps)
				where = append(where, fmt.Sprintf("%s@%s(peers=%v bans=%v)", n.name, t.Describe(), ps, n.ps.banList()))
			}
			if e.Verbose {
				for _, n := range nodes {
					for _, l := range n.lastLogs(25) {
						e.Logf("LOG %s: %.300s", n.name, l)
					}
				}
			}
			mode := topo
			if static {
				mode += ":static"
			}
			e.Violationf("C12.converge", "not-converged:"+what+":"+mode, "45 simulated minutes after %s the nodes (%s topology, static=%v) have not converged on the heaviest valid chain %s: %v", what, topo, static, goal.Describe(), where)
		}
	}
	awaitAll(dominant, "the last fault")
	if earlyErr != nil {
		e.Violationf("C12.valid-accepted", "early-block", "a block found during the sync phase was rejected by its own node: %v", earlyErr)
	}
	// a node finds new blocks and announces them
	if dominant.L.State.Index.Height >= net.Require() && e.Chance(1, 2) {
		miner := nodes[e.Intn(len(nodes))]
		tip := dominant
		kk := e.Range(1, 4)
		for i := 0; i < kk; i++ {
			tip = tree.Extend(e, tip, bo)
		}
		if tip.Block.V2 != nil {
			feed(e, "C12", miner, tip)
			how := e.Intn(3)
			if how == 0 && kk == 1 {
				how = 1 // a lone header that attaches to the tip is only relayed; its outline has to follow
			}
			switch how {
			case 0:
				// header only, the way a node that has just synced relays its new tip
				miner.sy.BroadcastV2Header(tip.Block.Header())
				e.Fault("announce-header-only")
			case 1:
				miner.sy.BroadcastV2Header(tip.Block.Header())
				time.Sleep(time.Duration(e.Range(0, 500)) * time.Millisecond)
				miner.sy.BroadcastV2BlockOutline(gateway.OutlineBlock(tip.Block, nil, nil))
				e.Fault("announce-header-then-outline")
			case 2:
				miner.sy.BroadcastV2BlockOutline(gateway.OutlineBlock(tip.Block, nil, nil))
				e.Fault("announce-outline")
			}
			e.Logf("%s %s mined %d block(s) up to %s and announced them (mode %d)", time.Now().Format("15:04:05.000"), miner.name, kk, tip.Describe(), how)
			awaitAll(tip, "a node announced new blocks")
			e.Probe("late_blocks_propagated")
		}
	}
	e.Probe("converged")
	e.Nontrivial = true
	e.Probes["net_segments"] += nw.Segments
	e.Probes["net_segments_held"] += nw.Held
}

var _ = sim.NewEnv

func init() {
	register(&Prop{
		ID: "C12", Run: runC12, Race: true, RunTimeout: 20, Quick: 1500, Thorough: 30000, Level: "exploration",
		Rule:        "one run = drawn network, fork tree (1 run in 8 with a 90-230 block stretch beyond the 100-block request split and the exponential history sample) made dominant, 2-5 real nodes (syncer + gateway + mux + manager) each started on its own branch or interior block, a drawn topology (line, star, ring, clique) and connection order, drawn sync interval / discovery interval / MaxSendBlocks / peer limits, per-connection latency and jitter from a seeded PRNG, 1 node in 3 slow (every 1st-4th header response held back 20-2000 ms after it was computed), and for 2 runs in 3 a phase of partitions, heals and connection resets; 1 run in 3 (when the heaviest chain reaches above the require height) adds 1-2 nodes started from a v2 checkpoint on it (chain.NewDBStoreAtCheckpoint), attached to a drawn full node; 1 run in 4 instead keeps the drawn topology static (no peer discovery, no faults) so that nodes not connected to the source depend on the relays, and 1 run in 6 with three or more nodes makes that a star whose hub starts 3-20 blocks behind a drawn tip, so that it syncs from peers on different forks at once; 1 run in 3 (above the require height) the node on the heaviest chain finds 1-4 more blocks at drawn instants while the others are still syncing and announces each by outline; after the last fault every node must, within 45 simulated minutes, sit on the unique sufficiently-heaviest valid chain; in half of the runs above the require height a drawn node then extends the chain by 1-4 blocks and announces the tip (header only / header then outline / outline only) and all nodes must reach it within the same bound, and the C01 audit must hold on every node at every poll; distinct = (regime, topology, size, fault kinds); all completed runs are non-trivial",
		Real:        []string{"syncer.Syncer (accept/peer/sync loops, parallel sync, relays)", "go.sia.tech/core/gateway + go.sia.tech/mux (real handshake, encryption, framing)", "chain.Manager + chain.DBStore per node"},
		Stub:        []string{"network: simnet in-memory TCP (seeded per-connection delays, partitions, resets)", "peer store: harness peerStore with real bans", "disk: simdisk.DB"},
		Assumptions: []string{"goroutine wake-up order is whatever the single-P runtime produces; it is perturbed per seed through drawn network delays, not chosen event by event", "checkpoint-bootstrapped nodes are leaves attached to a full node (they cannot serve history below their checkpoint)"},
	})
}
