package props

import (
	"fmt"
	"time"

	"go.sia.tech/core/consensus"
	"go.sia.tech/core/types"
	"go.sia.tech/coreutils"

	"verif/gen"
	"verif/sim"
	"verif/simdisk"
)

// dropCauses returns the ids whose use as an input the statement accepts as a
// reason for a pooled transaction to disappear when block n is applied
// (applied=true: everything the block spends, revises or resolves - those
// inputs are "spent on the chain") or reverted (applied=false: everything the
// block had created, revised or resolved - those inputs are "reverted on the
// chain", even if another branch creates them again). An input that a block
// merely CREATES when it is applied (a pooled parent gets confirmed) is no
// reason: the child has to stay.
func dropCauses(n *gen.Node, applied bool) map[types.Hash256]bool {
	t := map[types.Hash256]bool{}
	b := n.Block
	for _, txn := range b.Transactions {
		for _, r := range txn.FileContractRevisions {
			t[types.Hash256(r.ParentID)] = true
		}
		for _, p := range txn.StorageProofs {
			t[types.Hash256(p.ParentID)] = true
		}
		if applied {
			for _, in := range txn.SiacoinInputs {
				t[types.Hash256(in.ParentID)] = true
			}
			for _, in := range txn.SiafundInputs {
				t[types.Hash256(in.ParentID)] = true
			}
		} else {
			for i := range txn.SiacoinOutputs {
				t[types.Hash256(txn.SiacoinOutputID(i))] = true
			}
			for i := range txn.SiafundOutputs {
				t[types.Hash256(txn.SiafundOutputID(i))] = true
			}
			for i := range txn.FileContracts {
				t[types.Hash256(txn.FileContractID(i))] = true
			}
		}
	}
	for _, txn := range b.V2Transactions() {
		id := txn.ID()
		for _, r := range txn.FileContractRevisions {
			t[types.Hash256(r.Parent.ID)] = true
		}
		for _, r := range txn.FileContractResolutions {
			t[types.Hash256(r.Parent.ID)] = true
		}
		if applied {
			for _, in := range txn.SiacoinInputs {
				t[types.Hash256(in.Parent.ID)] = true
			}
			for _, in := range txn.SiafundInputs {
				t[types.Hash256(in.Parent.ID)] = true
			}
		} else {
			for i := range txn.SiacoinOutputs {
				t[types.Hash256(txn.SiacoinOutputID(id, i))] = true
			}
			for i := range txn.SiafundOutputs {
				t[types.Hash256(txn.SiafundOutputID(id, i))] = true
			}
			for i := range txn.FileContracts {
				t[types.Hash256(txn.V2FileContractID(id, i))] = true
			}
		}
	}
	if n.Parent != nil && n.Parent.Valid() {
		for _, id := range n.Parent.L.Expiring[n.Height] {
			t[types.Hash256(id)] = true
		}
	}
	// everything the block consumes (applied) or had created (reverted) without
	// a transaction naming it: miner payouts, foundation subsidy, siafund
	// claims, the outputs of resolved / expired contracts - the difference of
	// the ledgers around it, in the direction that matters
	if n.Parent != nil && n.Parent.Valid() && n.Valid() {
		before, after := n.Parent.L, n.L
		if !applied {
			before, after = n.L, n.Parent.L // what reverting the block takes away
		}
		for id := range before.SC {
			if _, ok := after.SC[id]; !ok {
				t[types.Hash256(id)] = true
			}
		}
		for id := range before.SF {
			if _, ok := after.SF[id]; !ok {
				t[types.Hash256(id)] = true
			}
		}
		for id := range before.V2FC {
			if _, ok := after.V2FC[id]; !ok {
				t[types.Hash256(id)] = true
			}
		}
		for id := range before.FC {
			if _, ok := after.FC[id]; !ok {
				t[types.Hash256(id)] = true
			}
		}
	}
	return t
}

type trackedTxn struct {
	v1       *types.Transaction
	v2       *types.V2Transaction
	inputs   []types.Hash256
	lastSeen int // index into the store's tip log when last seen in the pool
}

func inputsOfV1(t types.Transaction) (ids []types.Hash256) {
	for _, in := range t.SiacoinInputs {
		ids = append(ids, types.Hash256(in.ParentID))
	}
	for _, in := range t.SiafundInputs {
		ids = append(ids, types.Hash256(in.ParentID))
	}
	for _, r := range t.FileContractRevisions {
		ids = append(ids, types.Hash256(r.ParentID))
	}
	for _, p := range t.StorageProofs {
		ids = append(ids, types.Hash256(p.ParentID))
	}
	return
}

func inputsOfV2(t types.V2Transaction) (ids []types.Hash256) {
	for _, in := range t.SiacoinInputs {
		ids = append(ids, types.Hash256(in.Parent.ID))
	}
	for _, in := range t.SiafundInputs {
		ids = append(ids, types.Hash256(in.Parent.ID))
	}
	for _, r := range t.FileContractRevisions {
		ids = append(ids, types.Hash256(r.Parent.ID))
	}
	for _, r := range t.FileContractResolutions {
		ids = append(ids, types.Hash256(r.Parent.ID))
	}
	return
}

// refreshV2 replaces the proofs of txn's confirmed inputs with the ledger's.
// ok=false when an input is neither in the ledger nor ephemeral.
func refreshV2(txn types.V2Transaction, l *gen.Ledger, poolOutputs map[types.SiacoinOutputID]bool) (types.V2Transaction, bool) {
	t := txn.DeepCopy()
	for i := range t.SiacoinInputs {
		p := &t.SiacoinInputs[i].Parent
		if el, ok := l.SC[p.ID]; ok {
			p.StateElement = el.StateElement.Copy()
			p.MaturityHeight = el.MaturityHeight
		} else if poolOutputs[p.ID] {
			p.StateElement = types.StateElement{LeafIndex: types.UnassignedLeafIndex}
		} else {
			return t, false
		}
	}
	for i := range t.SiafundInputs {
		p := &t.SiafundInputs[i].Parent
		if el, ok := l.SF[p.ID]; ok {
			p.StateElement = el.StateElement.Copy()
		} else {
			return t, false
		}
	}
	for i := range t.FileContractRevisions {
		p := &t.FileContractRevisions[i].Parent
		if el, ok := l.V2FC[p.ID]; ok {
			*p = el.Copy()
		} else {
			return t, false
		}
	}
	for i := range t.FileContractResolutions {
		p := &t.FileContractResolutions[i].Parent
		if el, ok := l.V2FC[p.ID]; ok {
			*p = el.Copy()
		} else {
			return t, false
		}
		if sp, ok := t.FileContractResolutions[i].Resolution.(*types.V2StorageProof); ok {
			if cie, ok := l.CIE[sp.ProofIndex.ChainIndex.Height]; ok && cie.ID == sp.ProofIndex.ID {
				sp.ProofIndex = cie.Copy()
			} else {
				return t, false
			}
		}
	}
	return t, true
}

// auditPool checks that the reported pool is a valid, minable continuation of
// the tip. It returns the mid-state after all pool transactions.
func auditPool(e *sim.Env, inv string, s *chainSUT, tip *gen.Node) (poolSnap, *consensus.MidState) {
	p := snapPool(e, inv, s.cm)
	ts := s.cm.TipState()
	if ts.Index != tip.Index() {
		e.Infraf("auditPool: tip mismatch")
	}
	ms := consensus.NewMidState(tip.L.State)
	for i, txn := range p.v1 {
		sup := tip.L.TxnSupplement(txn)
		if err := consensus.ValidateTransaction(ms, txn, sup); err != nil {
			e.Violationf(inv+".pool-valid", "v1-invalid", "pool v1 transaction %d (%v) is invalid on top of the tip %s and the transactions before it: %v", i, txn.ID(), tip.Describe(), err)
		}
		ms.ApplyTransaction(txn, sup)
	}
	for i, txn := range p.v2 {
		if err := consensus.ValidateV2Transaction(ms, txn); err != nil {
			e.Violationf(inv+".pool-valid", "v2-invalid", "pool v2 transaction %d (%v) is invalid on top of the tip %s and the transactions before it: %v", i, txn.ID(), tip.Describe(), err)
		}
		ms.ApplyV2Transaction(txn)
		// every v2 proof must be the ledger's proof for the tip
		for _, in := range txn.SiacoinInputs {
			if in.Parent.StateElement.LeafIndex == types.UnassignedLeafIndex {
				continue
			}
			if el, ok := tip.L.SC[in.Parent.ID]; !ok || el.StateElement.LeafIndex != in.Parent.StateElement.LeafIndex {
				e.Violationf(inv+".pool-valid", "v2-proof-stale", "pool v2 transaction %v spends element %v with leaf index %d, the ledger has (%v, %d)", txn.ID(), in.Parent.ID, in.Parent.StateElement.LeafIndex, ok, el.StateElement.LeafIndex)
			}
		}
	}
	// a block assembled from the reported pool (as a miner would) is valid
	cs := tip.L.State
	var weight uint64
	var bt []types.Transaction
	var bv []types.V2Transaction
	for _, txn := range p.v1 {
		if weight += cs.TransactionWeight(txn); weight > cs.MaxBlockWeight() {
			break
		}
		bt = append(bt, txn)
	}
	if tip.Height+1 >= s.net.Allow() {
		for _, txn := range p.v2 {
			if weight += cs.V2TransactionWeight(txn); weight > cs.MaxBlockWeight() {
				break
			}
			bv = append(bv, txn)
		}
	}
	blk := gen.AssembleBlock(e, s.net, cs, tip.Block.Timestamp, types.VoidAddress, bt, bv, true)
	if _, _, err := tip.L.Apply(blk); err != nil {
		e.Violationf(inv+".pool-minable", "assembled-block-invalid", "a block assembled from the reported pool on top of %s is invalid: %v", tip.Describe(), err)
	}
	return p, ms
}

func runC05(e *sim.Env) {
	now := time.Now()
	net := gen.NewNet(e, now, gen.NetOpts{MaxHeight: 90})
	tree := gen.NewTree(net)
	s := newChainSUT(e, net, simdisk.New())
	e.Shape("net", net.Regime)
	// block timestamps stay at or below the simulated present so that
	// coreutils.MineBlock (which stamps blocks with the current time) can extend any tip
	bo := gen.BlockOpts{Mix: gen.FullMix, MaxTx: e.Range(0, 4), OrderSafe: true, Now: now.Add(-time.Hour - time.Minute), Strict: genStrict}
	tree.Grow(e, gen.GrowOpts{
		Blocks:    e.Range(8, 36),
		MinerPool: []types.Address{types.VoidAddress, net.Actors[0].Addr, net.Actors[1].Addr},
		LongFork:  false,
		Block:     bo,
	})
	plan := makePlan(e, tree)
	twin := &linearTwin{net: net}
	tracked := map[types.TransactionID]*trackedTxn{}
	bigMode := e.Chance(1, 12)
	tip := tree.Genesis

	see := func(p poolSnap) {
		for i := range p.v1 {
			id := p.v1[i].ID()
			if t, ok := tracked[id]; ok {
				t.lastSeen = len(s.store.tipLog)
			}
		}
		for i := range p.v2 {
			id := p.v2[i].ID()
			if t, ok := tracked[id]; ok {
				t.lastSeen = len(s.store.tipLog)
				cp := p.v2[i].DeepCopy()
				t.v2 = &cp
			}
		}
	}

	retention := func(p poolSnap, ms *consensus.MidState, overweight bool) {
		confirmed := map[types.TransactionID]bool{}
		for _, n := range tip.PathFromGenesis() {
			for _, txn := range n.Block.Transactions {
				confirmed[txn.ID()] = true
			}
			for _, txn := range n.Block.V2Transactions() {
				confirmed[txn.ID()] = true
			}
		}
		poolOutputs := map[types.SiacoinOutputID]bool{}
		for i := range p.v2 {
			id := p.v2[i].ID()
			for j := range p.v2[i].SiacoinOutputs {
				poolOutputs[p.v2[i].SiacoinOutputID(id, j)] = true
			}
		}
		for id, t := range tracked {
			if _, in := p.ids[id]; in {
				continue
			}
			switch {
			case confirmed[id]:
				e.Probe("retention_confirmed")
				delete(tracked, id)
				continue
			case overweight:
				e.Probe("retention_evicted_overweight")
				delete(tracked, id)
				continue
			}
			// an input touched by a block applied or reverted since it was last seen?
			touched := false
			log := s.store.tipLog
			for i := t.lastSeen; i < len(log) && !touched; i++ {
				// an apply moved the tip to log[i]; a revert moved it from the
				// previous entry (the reverted block) to its parent log[i]
				cur, okc := tree.ByID[log[i].ID]
				prev, okp := tree.ByID[prevTip(log, i, tree).ID]
				if !okc || !okp {
					continue
				}
				var tb map[types.Hash256]bool
				switch {
				case cur.Parent == prev:
					tb = dropCauses(cur, true)
				case prev.Parent == cur:
					tb = dropCauses(prev, false)
				default:
					continue
				}
				for _, in := range t.inputs {
					if tb[in] {
						touched = true
					}
				}
			}
			if touched {
				e.Probe("retention_input_touched")
				delete(tracked, id)
				continue
			}
			// does it still validate on top of the tip and the reported pool?
			stillValid := false
			if t.v1 != nil {
				sup := tip.L.TxnSupplement(*t.v1)
				stillValid = consensus.ValidateTransaction(ms, *t.v1, sup) == nil
			} else {
				if fresh, ok := refreshV2(*t.v2, tip.L, poolOutputs); ok {
					stillValid = consensus.ValidateV2Transaction(ms, fresh) == nil
				}
			}
			if !stillValid {
				e.Probe("retention_no_longer_valid")
				delete(tracked, id)
				continue
			}
			what := "v1"
			var rerr error
			var origins []string
			for _, in := range t.inputs {
				o := originOf(tip, types.SiacoinOutputID(in))
				el, ok := tip.L.SC[types.SiacoinOutputID(in)]
				origins = append(origins, fmt.Sprintf("%v:%s(leaf %d, in ledger %v)", in, o, el.StateElement.LeafIndex, ok))
			}
			if t.v2 != nil {
				for _, in := range t.v2.SiacoinInputs {
					origins = append(origins, fmt.Sprintf("held proof leaf=%d len=%d", in.Parent.StateElement.LeafIndex, len(in.Parent.StateElement.MerkleProof)))
				}
			}
			e.Logf("dropped txn inputs: %v; tip log since last seen: %v", origins, s.store.tipLog[t.lastSeen:])
			if t.v1 != nil {
				_, rerr = s.cm.AddPoolTransactions([]types.Transaction{*t.v1})
			} else {
				what = "v2"
				_, rerr = s.cm.AddV2PoolTransactions(tip.Index(), []types.V2Transaction{*t.v2})
			}
			e.Violationf("C05.retention", "dropped-without-cause", "%s transaction %v was accepted into the pool, is not confirmed on the best chain to %s, none of its inputs was touched by a block applied or reverted since it was last seen (last seen at tip-log position %d of %d), it still validates on top of the tip and the reported pool, yet it is gone (submitting it again: err=%v)", what, id, tip.Describe(), t.lastSeen, len(s.store.tipLog), rerr)
		}
	}

	// an upper bound of the weight the pool can have reached since the last
	// step: what it held then, plus everything accepted or put back by a revert
	// since. Eviction needs the pool to have reached its limit.
	var prevW, sinceW uint64
	heavyMade, heavyRamp := 0, e.Range(8, 11)

	// rejectHeavy submits, in a run with heavy transactions, a set whose first
	// transaction is heavy and fine and whose second one double-spends a pooled
	// input: rejected as a whole, and the pool is no heavier for it.
	rejectHeavy := func() {
		before := snapPool(e, "C05", s.cm)
		if len(before.v2) == 0 || tip.Height+1 < net.Allow() {
			return
		}
		tb := gen.NewTxBuilder(e, tip.L)
		tb.OrderSafe, tb.UsedEnds, tb.Strict = true, tree.UsedEnds, genStrict
		tb.Adopt(before.v1, before.v2)
		n2 := len(tb.V2Txns)
		var txn types.V2Transaction
		txn.ArbitraryData = make([]byte, 1_800_000)
		copy(txn.ArbitraryData, e.Bytes(8))
		txn.MinerFee = types.Siacoins(uint32(e.Range(1, 50)))
		if !tb.FundV2(&txn, txn.MinerFee) {
			return
		}
		tb.SignV2(&txn)
		if !tb.CommitV2("v2big", txn) {
			return
		}
		c, ok := conflictV2(tb, before.v2[e.Intn(len(before.v2))])
		if !ok {
			return
		}
		set := []types.V2Transaction{tb.V2Txns[n2].DeepCopy(), c}
		var err error
		e.Guard("C05.panic", "AddV2PoolTransactions", func() { _, err = s.cm.AddV2PoolTransactions(tip.Index(), set) })
		e.Logf("pool submit heavy + conflicting -> err=%v", err)
		if err == nil {
			e.Violationf("C05.invalid-rejected", "conflict-accepted", "a set whose second transaction double-spends a pooled input was accepted")
		}
		e.Fault("heavy-set-rejected")
	}

	submit := func() {
		// a set valid at the tip or at a stale basis
		basisNode := tip
		stale := false
		if e.Chance(1, 4) && tip.Height > 0 {
			// an ancestor, or a block on another branch the node knows
			if e.Chance(2, 3) {
				basisNode = tip.Ancestor(tip.Height - uint64(e.Range(1, int(min(tip.Height, 6)))))
			} else {
				for _, n := range tree.Nodes {
					if _, ok := s.cm.State(n.ID); ok && n.Valid() && !n.IsAncestorOf(tip) && e.Chance(1, 3) {
						basisNode = n
						break
					}
				}
			}
			stale = basisNode != tip
		}
		before := snapPool(e, "C05", s.cm)
		tb := gen.NewTxBuilder(e, basisNode.L)
		tb.OrderSafe, tb.UsedEnds, tb.Strict = true, tree.UsedEnds, genStrict && !stale
		if !stale {
			tb.Adopt(before.v1, before.v2)
		}
		n1, n2 := len(tb.Txns), len(tb.V2Txns)
		useV2 := tb.V2OK() && (!tb.V1OK() || e.Chance(2, 3)) && tip.Height+1 >= net.Allow()
		mix := gen.FullMix
		if useV2 {
			mix.Pay, mix.SF, mix.FCForm, mix.FCRevise, mix.FCProof, mix.Arb, mix.Foundation = 0, 0, 0, 0, 0, 0, 0
		} else {
			mix = gen.TxMix{Pay: 6, SF: 2, FCForm: 2, FCRevise: 2, FCProof: 2, Arb: 1, Foundation: 1}
		}
		want := e.Range(1, 4)
		for k := 0; k < want*2 && (len(tb.Txns)-n1)+(len(tb.V2Txns)-n2) < want; k++ {
			tb.Draw(mix)
		}
		if bigMode && useV2 && !stale {
			// heavy transactions: ~0.9 of a block of arbitrary data each, drawn
			// fees; several at a time until the pool is close to its limit of
			// ten blocks
			for k, n := 0, e.Range(1, 3); k < n && (k == 0 || heavyMade < heavyRamp); k++ {
				var txn types.V2Transaction
				txn.ArbitraryData = make([]byte, 1_800_000)
				copy(txn.ArbitraryData, e.Bytes(8))
				txn.MinerFee = types.Siacoins(uint32(e.Range(1, 50)))
				if tb.FundV2(&txn, txn.MinerFee) {
					tb.SignV2(&txn)
					if tb.CommitV2("v2big", txn) {
						heavyMade++
					}
				}
			}
		}
		var known bool
		var err error
		var ids []types.TransactionID
		if useV2 {
			fresh := make([]types.V2Transaction, 0, len(tb.V2Txns)-n2)
			for _, t := range tb.V2Txns[n2:] {
				fresh = append(fresh, t.DeepCopy())
			}
			if len(fresh) == 0 {
				return
			}
			set := fresh
			if !stale {
				set = append(poolSubsetV2(before.v2, func(int) bool { return false }, fresh), fresh...)
			}
			e.Guard("C05.panic", "AddV2PoolTransactions", func() { known, err = s.cm.AddV2PoolTransactions(basisNode.Index(), set) })
			if err == nil {
				for i := range fresh {
					id := fresh[i].ID()
					ids = append(ids, id)
					cp := fresh[i].DeepCopy()
					tracked[id] = &trackedTxn{v2: &cp, inputs: inputsOfV2(cp)}
					sinceW += tip.L.State.V2TransactionWeight(cp)
				}
			}
		} else {
			set := append([]types.Transaction(nil), tb.Txns[n1:]...)
			if len(set) == 0 {
				return
			}
			e.Guard("C05.panic", "AddPoolTransactions", func() { known, err = s.cm.AddPoolTransactions(set) })
			if err == nil {
				for i := range set {
					id := set[i].ID()
					ids = append(ids, id)
					cp := set[i]
					tracked[id] = &trackedTxn{v1: &cp, inputs: inputsOfV1(cp)}
					sinceW += tip.L.State.TransactionWeight(cp)
				}
			}
		}
		e.Logf("pool submit v2=%v stale=%v basis %s kinds=%v -> known=%v err=%v", useV2, stale, basisNode.Describe(), tb.Kinds[len(tb.Kinds)-min(len(tb.Kinds), want):], known, err)
		e.Shape("submit", fmt.Sprint(useV2), fmt.Sprint(stale), fmt.Sprint(err != nil))
		if stale {
			e.Fault("stale-basis-set")
			if err == nil {
				e.Probe("stale_basis_set_accepted")
			}
		} else if err != nil && useV2 && func() bool {
			for i := n2; i < len(tb.V2Txns); i++ {
				if mixedVersionAncestry(s.cm, tb.V2Txns[i]) {
					return true
				}
			}
			return false
		}() {
			// a v2 transaction on top of a pooled v1 transaction (directly, or
			// through pooled v2 transactions whose v1 parent a reorg put back into
			// the pool) is fine inside a block but cannot be handed to the pool,
			// which takes v1 and v2 sets separately: counted, not judged
			e.Probe("set_on_mixed_version_ancestry")
		} else if err != nil {
			e.Violationf("C05.valid-accepted", "fresh-set-rejected", "a set that is valid on top of the tip and the reported pool was rejected: %v (kinds %v)", err, tb.Kinds)
		}
	}

	step := func(label string) {
		e.Step()
		p, ms := auditPool(e, "C05", s, tip)
		var w uint64
		for _, t := range p.v1 {
			w += tip.L.State.TransactionWeight(t)
		}
		for _, t := range p.v2 {
			w += tip.L.State.V2TransactionWeight(t)
		}
		over := false
		var tw uint64 = w
		for id, t := range tracked {
			if _, in := p.ids[id]; !in {
				if t.v2 != nil {
					tw += tip.L.State.V2TransactionWeight(*t.v2)
				} else {
					tw += tip.L.State.TransactionWeight(*t.v1)
				}
			}
		}
		if tw >= tip.L.State.MaxBlockWeight()*10*3/4 && prevW+sinceW >= tip.L.State.MaxBlockWeight()*10 {
			over = true
		}
		retention(p, ms, over)
		see(p)
		prevW, sinceW = w, 0
		if w >= tip.L.State.MaxBlockWeight()*5 {
			e.Probe("pool_heavy")
		}
	}

	for _, batch := range plan {
		if len(batch) == 0 {
			continue
		}
		for i, n := 0, e.Range(0, 3); i < n; i++ {
			submit()
			step("after submit")
			if bigMode && e.Chance(1, 2) {
				rejectHeavy()
				step("after a rejected heavy set")
			}
		}
		var err error
		e.Guard("C05.panic", "AddBlocks", func() { err = s.cm.AddBlocks(blocksOf(batch)) })
		newTip := auditBestChain(e, "C05", s, tree)
		if newTip != tip {
			fork := gen.CommonAncestor(tip, newTip)
			d := int(tip.Height - fork.Height)
			e.Shape("reorg", bucket(d))
			if d > 0 {
				e.Nontrivial = true
				e.Probe("reorg_under_pool")
			}
		}
		e.Logf("AddBlocks(%d, last %s) -> err=%v tip %s", len(batch), batch[len(batch)-1].Describe(), err != nil, newTip.Describe())
		if newTip != tip {
			// reverted blocks give their transactions back to the pool
			fork := gen.CommonAncestor(tip, newTip)
			for n := tip; n != fork && n != nil; n = n.Parent {
				for _, t := range n.Block.Transactions {
					sinceW += tip.L.State.TransactionWeight(t)
				}
				for _, t := range n.Block.V2Transactions() {
					sinceW += tip.L.State.V2TransactionWeight(t)
				}
			}
		}
		tip = newTip
		step("after AddBlocks")

		if e.Chance(1, 4) {
			// another miner's block that confirms only the front part of the pool
			// (any prefix is a valid block body): what it leaves out - children of
			// confirmed parents in particular - has to stay pooled
			p := snapPool(e, "C05", s.cm)
			cs := tip.L.State
			var bt []types.Transaction
			var bv []types.V2Transaction
			total := len(p.v1)
			if tip.Height+1 >= net.Allow() {
				total += len(p.v2)
			}
			if total >= 2 {
				k := e.Range(1, total-1)
				var weight uint64
				for _, txn := range p.v1 {
					if len(bt)+len(bv) == k {
						break
					}
					if weight += cs.TransactionWeight(txn); weight > cs.MaxBlockWeight() {
						break
					}
					bt = append(bt, txn)
				}
				if len(bt) == len(p.v1) {
					for _, txn := range p.v2 {
						if len(bt)+len(bv) == k {
							break
						}
						if weight += cs.V2TransactionWeight(txn); weight > cs.MaxBlockWeight() {
							break
						}
						bv = append(bv, txn)
					}
				}
				blk := gen.AssembleBlock(e, net, cs, tree.Timestamp(e, tip, bo.Now, false), types.VoidAddress, bt, bv, tip.Height+1 >= net.Allow())
				if n, lerr := tree.AddForeign(tip, blk); lerr == nil {
					var merr error
					e.Guard("C05.panic", "AddBlocks(prefix block)", func() { merr = s.cm.AddBlocks([]types.Block{blk}) })
					if merr != nil {
						e.Violationf("C05.pool-minable", "prefix-block-rejected", "a block made of the first %d of %d reported pool transactions on top of %s was rejected: %v", k, total, tip.Describe(), merr)
					}
					if s.cm.Tip() == n.Index() {
						tip = n
						e.Probe("prefix_of_pool_confirmed")
						e.Shape("prefix-block", bucket(k))
						step("after a block confirming a prefix of the pool")
					}
				} else {
					e.Violationf("C05.pool-minable", "prefix-block-invalid", "a block made of the first %d of %d reported pool transactions on top of %s is invalid: %v", k, total, tip.Describe(), lerr)
				}
			}
		}
		if e.Chance(1, 5) {
			// mine from the pool with the real miner, on the node and on a linear twin
			var blk types.Block
			var found bool
			e.Guard("C05.panic", "MineBlock", func() { blk, found = coreutils.MineBlock(s.cm, net.Actors[0].Addr, time.Second) })
			if !found {
				e.Infraf("MineBlock did not find a nonce")
			}
			tw := twin.at(e, tree, tip)
			terr := tw.cm.AddBlocks([]types.Block{blk})
			var merr error
			e.Guard("C05.panic", "AddBlocks(mined)", func() { merr = s.cm.AddBlocks([]types.Block{blk}) })
			n, lerr := tree.AddForeign(tip, blk)
			if lerr != nil || merr != nil || terr != nil {
				e.Violationf("C05.pool-minable", "mined-block-rejected", "a block mined by coreutils.MineBlock from the pool on top of %s: ledger says %v, the node says %v, a linear node says %v", tip.Describe(), lerr, merr, terr)
			}
			if s.cm.Tip() != n.Index() {
				e.Violationf("C05.pool-minable", "mined-block-not-adopted", "the node did not adopt the block it mined (tip %v)", s.cm.Tip())
			}
			twin.tip = n
			tip = n
			e.Probe("mined_from_pool")
			e.Shape("mine", bucket(len(blk.Transactions)+len(blk.V2Transactions())))
			step("after mined block")
		}
	}
}

// prevTip returns the tip before log entry i.
func prevTip(log []types.ChainIndex, i int, tree *gen.Tree) types.ChainIndex {
	if i == 0 {
		return tree.Genesis.Index()
	}
	return log[i-1]
}

func init() {
	register(&Prop{
		ID: "C05", Run: runC05, Quick: 700, Thorough: 20000, Level: "exploration",
		Rule:        "one run = C02-style history interleaved with pool submissions drawn from the reference ledger at the tip or at a stale basis (ancestor or other branch): valid v1/v2 sets with parent/child chains over ephemeral outputs, contract formation/revision/resolution, 1 run in 12 with ~0.9-block-weight transactions to reach eviction (and sets of such a transaction plus one that double-spends a pooled input: rejected, and the pool no heavier for it); after every submission, every AddBlocks call, every block that confirms a drawn prefix of the reported pool and every coreutils.MineBlock: the reported pool (v1 then v2) validates prefix by prefix on a fresh mid-state of the tip with ledger supplements and ledger proofs, a block assembled from it is valid, mined blocks are accepted by the node and a linear twin, and every previously accepted transaction that disappeared has a cause the statement allows (confirmed, an input spent (or a contract revised / resolved) by a block applied since it was last seen, or created by a block reverted since then, no longer valid on top of tip+pool, pool over its weight limit - which requires that what the pool held at the previous look plus everything accepted or put back by reverts since reaches the limit); distinct = abstract trace; non-trivial = a reorg reverting blocks under a non-empty history",
		Real:        []string{"chain.Manager (pool, reorg pool updates)", "chain.DBStore", "coreutils.MineBlock"},
		Stub:        []string{"disk: simdisk.DB"},
		Assumptions: []string{"retention is checked one-sidedly: a disappearance is flagged only when none of the allowed causes applies", "eviction order under a full pool is not checked, only that eviction happens solely when the pool is near its limit"},
	})
}
