package props

import (
	"context"
	"fmt"
	"strings"
	"sync"
	"testing/synctest"
	"time"

	"go.sia.tech/core/consensus"
	proto4 "go.sia.tech/core/rhp/v4"
	"go.sia.tech/core/types"
	rhp4 "go.sia.tech/coreutils/rhp/v4"
	"go.sia.tech/coreutils/testutil"
	"go.sia.tech/coreutils/wallet"
	"go.uber.org/zap"
	"go.uber.org/zap/zapcore"
	"go.uber.org/zap/zaptest/observer"

	"verif/gen"
	"verif/sim"
	"verif/simdisk"
	"verif/simrhp"
)

// contractorCall is one recorded call into the Contractor.
type contractorCall struct {
	seq      int
	method   string
	id       types.FileContractID
	revision *types.V2FileContract
	roots    []types.Hash256
	deposits []proto4.AccountDeposit
	account  proto4.Account
	usage    proto4.Usage
	set      *rhp4.TransactionSet
	err      error
}

// recContractor wraps the in-repo reference Contractor and records every
// mutating call with the simulator's event sequence number.
type recContractor struct {
	*testutil.EphemeralContractor
	e     *sim.Env
	mu    sync.Mutex
	calls []contractorCall
	yield func(string)
	// gate, if set, brackets DebitAccount (C18: blocking handlers)
	gate func(method string) func()
	// blockingLocks: a contract lock that is taken waits for its holder (a
	// host whose lock is a mutex) instead of refusing at once
	blockingLocks bool
}

// LockV2Contract is the reference implementation's, or - with blockingLocks -
// one that waits up to two simulated seconds for the holder.
func (c *recContractor) LockV2Contract(id types.FileContractID) (rhp4.RevisionState, func(), error) {
	st, unlock, err := c.EphemeralContractor.LockV2Contract(id)
	for i := 0; err != nil && c.blockingLocks && strings.Contains(err.Error(), "already locked") && i < 2000; i++ {
		time.Sleep(time.Millisecond)
		st, unlock, err = c.EphemeralContractor.LockV2Contract(id)
	}
	return st, unlock, err
}

func (c *recContractor) rec(call contractorCall) {
	call.seq = c.e.Step()
	c.mu.Lock()
	c.calls = append(c.calls, call)
	c.mu.Unlock()
}

func (c *recContractor) AddV2Contract(set rhp4.TransactionSet, u proto4.Usage) error {
	err := c.EphemeralContractor.AddV2Contract(set, u)
	c.rec(contractorCall{method: "AddV2Contract", set: &set, usage: u, err: err})
	return err
}

func (c *recContractor) RenewV2Contract(set rhp4.TransactionSet, u proto4.Usage) error {
	err := c.EphemeralContractor.RenewV2Contract(set, u)
	c.rec(contractorCall{method: "RenewV2Contract", set: &set, usage: u, err: err})
	return err
}

func (c *recContractor) ReviseV2Contract(id types.FileContractID, rev types.V2FileContract, roots []types.Hash256, u proto4.Usage) error {
	if c.yield != nil {
		c.yield("contractor.ReviseV2Contract")
	}
	err := c.EphemeralContractor.ReviseV2Contract(id, rev, roots, u)
	c.rec(contractorCall{method: "ReviseV2Contract", id: id, revision: &rev, roots: append([]types.Hash256(nil), roots...), usage: u, err: err})
	return err
}

func (c *recContractor) CreditAccountsWithContract(d []proto4.AccountDeposit, id types.FileContractID, rev types.V2FileContract, u proto4.Usage) ([]types.Currency, error) {
	b, err := c.EphemeralContractor.CreditAccountsWithContract(d, id, rev, u)
	c.rec(contractorCall{method: "CreditAccountsWithContract", id: id, revision: &rev, deposits: append([]proto4.AccountDeposit(nil), d...), usage: u, err: err})
	return b, err
}

func (c *recContractor) CreditPoolsWithContract(d []proto4.AccountDeposit, id types.FileContractID, rev types.V2FileContract, u proto4.Usage) ([]types.Currency, error) {
	b, err := c.EphemeralContractor.CreditPoolsWithContract(d, id, rev, u)
	c.rec(contractorCall{method: "CreditPoolsWithContract", id: id, revision: &rev, deposits: append([]proto4.AccountDeposit(nil), d...), usage: u, err: err})
	return b, err
}

func (c *recContractor) DebitAccount(a proto4.Account, u proto4.Usage) error {
	if c.gate != nil {
		defer c.gate("DebitAccount")()
	}
	err := c.EphemeralContractor.DebitAccount(a, u)
	c.rec(contractorCall{method: "DebitAccount", account: a, usage: u, err: err})
	return err
}

func (c *recContractor) AttachPools(a []proto4.PoolAttachment) error {
	err := c.EphemeralContractor.AttachPools(a)
	c.rec(contractorCall{method: "AttachPools", err: err})
	return err
}

func (c *recContractor) DetachPools(d []proto4.PoolDetachment) error {
	err := c.EphemeralContractor.DetachPools(d)
	c.rec(contractorCall{method: "DetachPools", err: err})
	return err
}

// sectorCall is one recorded call into the sector store.
type sectorCall struct {
	seq    int
	method string
	root   types.Hash256
	err    error
}

type recSectors struct {
	*testutil.EphemeralSectorStore
	e     *sim.Env
	mu    sync.Mutex
	calls []sectorCall
	// gate, if set, brackets every call (C18: blocking handlers)
	gate func(method string) func()
}

func (s *recSectors) ReadSector(root types.Hash256, off, l uint64) ([]byte, []types.Hash256, error) {
	if s.gate != nil {
		defer s.gate("ReadSector")()
	}
	b, p, err := s.EphemeralSectorStore.ReadSector(root, off, l)
	s.mu.Lock()
	s.calls = append(s.calls, sectorCall{seq: s.e.Step(), method: "ReadSector", root: root, err: err})
	s.mu.Unlock()
	return b, p, err
}

func (s *recSectors) StoreSector(root types.Hash256, data *[proto4.SectorSize]byte, sub []types.Hash256, exp uint64) error {
	if s.gate != nil {
		defer s.gate("StoreSector")()
	}
	err := s.EphemeralSectorStore.StoreSector(root, data, sub, exp)
	s.mu.Lock()
	s.calls = append(s.calls, sectorCall{seq: s.e.Step(), method: "StoreSector", root: root, err: err})
	s.mu.Unlock()
	return err
}

// fundAndSign adapts a wallet to the renter-side signer / funder interfaces.
type fundAndSign struct {
	w  *wallet.SingleAddressWallet
	pk types.PrivateKey
	// lastHash is the hash most recently signed with the renter key (a
	// Byzantine host that countersigns whatever the renter agreed to needs it)
	lastHash types.Hash256
}

func (fs *fundAndSign) FundV2Transaction(txn *types.V2Transaction, amount types.Currency) (types.ChainIndex, []int, error) {
	return fs.w.FundV2Transaction(txn, amount, true)
}
func (fs *fundAndSign) RecommendedFee() types.Currency           { return fs.w.RecommendedFee() }
func (fs *fundAndSign) ReleaseInputs(txns []types.V2Transaction) { fs.w.ReleaseInputs(nil, txns) }
func (fs *fundAndSign) SignV2Inputs(txn *types.V2Transaction, toSign []int) {
	fs.w.SignV2Inputs(txn, toSign)
}
func (fs *fundAndSign) SignHash(h types.Hash256) types.Signature {
	fs.lastHash = h
	return fs.pk.SignHash(h)
}

// rhpRig is a real rhp4.Server with real wallets and manager, the in-repo
// reference contractor and sector store behind recording wrappers, and the
// simulated transport.
type rhpRig struct {
	e    *sim.Env
	inv  string
	net  *gen.Net
	tree *gen.Tree
	s    *chainSUT // the host's node
	rs   *chainSUT // the renter's node (== s unless the rig has two nodes)
	tip  *gen.Node
	now  time.Time

	hostKey, renterKey types.PrivateKey
	hostA, renterA     gen.Actor
	hw, rw             *wallet.SingleAddressWallet
	hst, rst           *walletStore
	contractor         *recContractor
	sectors            *recSectors
	settings           *testutil.EphemeralSettingsReporter
	server             *rhp4.Server
	tr                 *simrhp.Transport
	signer             *fundAndSign
	prices             proto4.HostPrices
	hostSettings       proto4.HostSettings
	priceValidity      time.Duration
	nAccounts          int
	logs               *observer.ObservedLogs
	seenLogs           int
}

// handlerPanics reports "panic in RPC handler" entries the server logged
// since the last call (the server recovers handler panics and only logs them).
func (r *rhpRig) handlerPanics() []string {
	var out []string
	all := r.logs.All()
	for _, en := range all[r.seenLogs:] {
		if en.Message == "panic in RPC handler" {
			out = append(out, fmt.Sprintf("%v\n%v", en.ContextMap()["panic"], en.ContextMap()["stack"]))
		}
	}
	r.seenLogs = len(all)
	return out
}

// checkHandlerPanics turns a recovered handler panic into a violation.
func (r *rhpRig) checkHandlerPanics(what string) {
	if ps := r.handlerPanics(); len(ps) > 0 {
		r.e.Violationf(r.inv+".panic", "rpc-handler-panic:"+what, "the RHP server recovered a panic in an RPC handler during %s: %s", what, ps[0])
	}
}

func (r *rhpRig) syncAll() {
	syncWallet(r.e, r.inv, r.s, r.hw, r.hst, 1000, func() int { return 100 })
	syncWallet(r.e, r.inv, r.rs, r.rw, r.rst, 1000, func() int { return 100 })
	synctest.Wait() // the contractor follows the chain in its own goroutine
	r.tip = r.tree.ByID[r.s.cm.Tip().ID]
}

// mine confirms the pool in n blocks.
func (r *rhpRig) mine(n int) { r.mineOpt(n, true) }

// mineOpt is mine; with syncHost false the host's wallet is not told about
// the new blocks (its chain manager has them).
func (r *rhpRig) mineOpt(n int, syncHost bool) {
	for i := 0; i < n; i++ {
		p := snapPool(r.e, r.inv, r.s.cm)
		tipNode := r.tree.ByID[r.s.cm.Tip().ID]
		cs := tipNode.L.State
		var w uint64
		var bv []types.V2Transaction
		for _, t := range p.v2 {
			if w += cs.V2TransactionWeight(t); w > cs.MaxBlockWeight() {
				break
			}
			bv = append(bv, t)
		}
		blk := gen.AssembleBlock(r.e, r.net, cs, r.tree.Timestamp(r.e, tipNode, r.now, false), types.VoidAddress, nil, bv, true)
		if _, err := r.tree.AddForeign(tipNode, blk); err != nil {
			r.e.Violationf(r.inv+".pool-minable", "block-invalid", "a block assembled from the pool is invalid: %v", err)
		}
		if err := r.s.cm.AddBlocks([]types.Block{blk}); err != nil {
			r.e.Violationf(r.inv+".pool-minable", "block-rejected", "a block assembled from the pool was rejected: %v", err)
		}
		if r.rs != r.s {
			// the renter's node catches up with the host's chain
			r.rs.cm.AddBlocks(blocksOf(r.tree.ByID[blk.ID()].PathFromGenesis()[1:]))
		}
	}
	if !syncHost {
		syncWallet(r.e, r.inv, r.rs, r.rw, r.rst, 1000, func() int { return 100 })
		synctest.Wait()
		r.tip = r.tree.ByID[r.s.cm.Tip().ID]
		return
	}
	r.syncAll()
}

func newRHPRig(e *sim.Env, inv string, ip simrhp.Interposer) *rhpRig {
	return newRHPRigN(e, inv, ip, false)
}

func newRHPRigN(e *sim.Env, inv string, ip simrhp.Interposer, twoNodes bool) *rhpRig {
	now := time.Now()
	net := gen.NewNet(e, now, gen.NetOpts{MaxHeight: 200, Regime: "v2", Actors: 4})
	r := &rhpRig{e: e, inv: inv, net: net, tree: gen.NewTree(net), now: now}
	r.s = newChainSUT(e, net, simdisk.New())
	r.rs = r.s
	if twoNodes {
		r.rs = newChainSUT(e, net, simdisk.New())
	}
	r.hostA, r.renterA = net.Actors[0], net.Actors[1]
	hs, rs := e.Bytes(32), e.Bytes(32)
	hs[30], rs[30] = hs[30]^0xa1, rs[30]^0xb2 // distinct even on an exhausted tape
	r.hostKey = types.NewPrivateKeyFromSeed(hs)
	r.renterKey = types.NewPrivateKeyFromSeed(rs)
	r.hst, r.rst = newWalletStore(), newWalletStore()
	r.hw = newWallet(e, inv, r.hostA, r.s, r.hst, &recSyncer{})
	r.rw = newWallet(e, inv, r.renterA, r.rs, r.rst, &recSyncer{})
	e.OnCleanup(func() { r.hw.Close(); r.rw.Close() })
	r.signer = &fundAndSign{w: r.rw, pk: r.renterKey}

	// fund both wallets
	n := int(net.Network.MaturityDelay) + e.Range(4, 10)
	tip := r.tree.Genesis
	for i := 0; i < n; i++ {
		miner := r.hostA.Addr
		if i%2 == 1 {
			miner = r.renterA.Addr
		}
		tip = r.tree.Extend(e, tip, gen.BlockOpts{Now: now, Miner: miner, MinGap: false})
		if err := r.s.cm.AddBlocks([]types.Block{tip.Block}); err != nil {
			e.Violationf(inv+".valid-accepted", "setup", "setup block rejected: %v", err)
		}
		if twoNodes {
			r.rs.cm.AddBlocks([]types.Block{tip.Block})
		}
	}

	ec := testutil.NewEphemeralContractor(r.s.cm)
	e.OnCleanup(func() { ec.Close() })
	r.contractor = &recContractor{EphemeralContractor: ec, e: e}
	r.sectors = &recSectors{EphemeralSectorStore: testutil.NewEphemeralSectorStore(), e: e}
	r.settings = testutil.NewEphemeralSettingsReporter()
	r.hostSettings = proto4.HostSettings{
		Release:             "verif",
		AcceptingContracts:  true,
		WalletAddress:       r.hw.Address(),
		MaxCollateral:       types.Siacoins(10000),
		MaxContractDuration: 1000,
		RemainingStorage:    100 * proto4.SectorSize,
		TotalStorage:        100 * proto4.SectorSize,
		Prices: proto4.HostPrices{
			ContractPrice:   types.Siacoins(1).Div64(5),
			StoragePrice:    types.NewCurrency64(uint64(e.Range(1, 200))),
			IngressPrice:    types.NewCurrency64(uint64(e.Range(1, 200))),
			EgressPrice:     types.NewCurrency64(uint64(e.Range(1, 200))),
			Collateral:      types.NewCurrency64(uint64(e.Range(1, 400))),
			FreeSectorPrice: types.NewCurrency64(uint64(e.Range(0, 50))),
		},
	}
	r.settings.Update(r.hostSettings)
	r.priceValidity = time.Duration(e.Range(2, 30)) * time.Minute
	r.server = rhp4.NewServer(r.hostKey, r.s.cm, r.contractor, r.hw, r.settings, r.sectors, rhp4.WithPriceTableValidity(r.priceValidity))
	r.tr = simrhp.NewTransport(r.hostKey.PublicKey())
	r.tr.Interpose = ip
	core, logs := observer.New(zapcore.ErrorLevel)
	r.logs = logs
	go r.server.Serve(r.tr, zap.New(core))
	e.OnCleanup(func() {
		r.tr.Close()
		r.server.Close()
	})
	r.syncAll()
	r.refreshPrices()
	return r
}

// refreshPrices fetches a freshly signed price table.
func (r *rhpRig) refreshPrices() {
	var st proto4.HostSettings
	var err error
	r.e.Guard(r.inv+".panic", "RPCSettings", func() { st, err = rhp4.RPCSettings(context.Background(), r.tr) })
	if err != nil {
		r.e.Violationf(r.inv+".honest-rpc", "settings", "RPCSettings failed: %v", err)
	}
	r.prices = st.Prices
}

func (r *rhpRig) cs() consensus.State { return r.s.cm.TipState() }

// form forms a contract through the real client.
func (r *rhpRig) form(allowance, collateral types.Currency, duration uint64) rhp4.ContractRevision {
	var res rhp4.RPCFormContractResult
	var err error
	// keep the pair affordable: the minimum allowance grows with the collateral
	for proto4.MinRenterAllowance(r.prices, collateral).Cmp(types.Siacoins(50000)) > 0 {
		collateral = collateral.Div64(2)
	}
	if min := proto4.MinRenterAllowance(r.prices, collateral); allowance.Cmp(min) < 0 {
		allowance = min.Mul64(2)
	}
	r.e.Guard(r.inv+".panic", "RPCFormContract", func() {
		res, err = rhp4.RPCFormContract(context.Background(), r.tr, r.rs.cm, r.signer, r.rs.cm.TipState(), r.prices, r.hostKey.PublicKey(), r.hw.Address(), proto4.RPCFormContractParams{
			RenterPublicKey: r.renterKey.PublicKey(),
			RenterAddress:   r.rw.Address(),
			Allowance:       allowance,
			Collateral:      collateral,
			ProofHeight:     r.s.cm.Tip().Height + duration,
		})
	})
	if err != nil {
		r.e.Violationf(r.inv+".honest-rpc", "form", "honest RPCFormContract failed: %v", err)
	}
	return res.Contract
}

// account returns a deterministic account key pair.
func (r *rhpRig) newAccountKey() types.PrivateKey {
	r.nAccounts++
	seed := r.e.Bytes(32)
	seed[29] ^= byte(r.nAccounts)
	return types.NewPrivateKeyFromSeed(seed)
}

func (r *rhpRig) token(sk types.PrivateKey) proto4.AccountToken {
	return proto4.NewAccountToken(sk, r.hostKey.PublicKey())
}

// hostState reads the contractor's view of a contract.
func (r *rhpRig) hostState(id types.FileContractID) (rhp4.RevisionState, error) {
	st, unlock, err := r.contractor.LockV2Contract(id)
	if err != nil {
		return rhp4.RevisionState{}, err
	}
	st.Roots = append([]types.Hash256(nil), st.Roots...)
	unlock()
	return st, nil
}

func rootsMatchRevision(st rhp4.RevisionState) error {
	if got := proto4.MetaRoot(st.Roots); got != st.Revision.FileMerkleRoot {
		return fmt.Errorf("stored roots hash to %v but the committed revision %d has file Merkle root %v", got, st.Revision.RevisionNumber, st.Revision.FileMerkleRoot)
	}
	if uint64(len(st.Roots))*proto4.SectorSize != st.Revision.Filesize {
		return fmt.Errorf("%d stored roots but the committed revision says filesize %d", len(st.Roots), st.Revision.Filesize)
	}
	return nil
}
