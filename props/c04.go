package props

import (
	"fmt"
	"runtime/debug"
	"sync"
	"time"

	"go.sia.tech/core/types"
	"go.sia.tech/coreutils/chain"

	"verif/gen"
	"verif/sim"
	"verif/simdisk"
)

type subscriber struct {
	name string
	sh   *shadow
}

// pollOnce asks for at most max updates since the subscriber's index, checks
// the contiguity rules and folds the updates into its shadow ledger.
func pollOnce(e *sim.Env, inv string, s *chainSUT, tree *gen.Tree, sub *subscriber, max int) (n int) {
	var rus []chain.RevertUpdate
	var aus []chain.ApplyUpdate
	var err error
	start := sub.sh.idx
	e.Guard(inv+".panic", "UpdatesSince", func() { rus, aus, err = s.cm.UpdatesSince(start, max) })
	if err != nil {
		e.Violationf(inv+".updates-error", "error", "%s: UpdatesSince(%v, %d) failed: %v", sub.name, start, max, err)
	}
	if len(rus)+len(aus) > max {
		e.Violationf(inv+".max-updates", "too-many", "%s: UpdatesSince(%v, %d) returned %d reverts + %d applies", sub.name, start, max, len(rus), len(aus))
	}
	tip := s.cm.Tip()
	if len(rus)+len(aus) == 0 && start != tip {
		e.Violationf(inv+".reaches-tip", "stuck", "%s: UpdatesSince(%v, %d) returned nothing although the tip is %v", sub.name, start, max, tip)
	}
	onBest := func(idx types.ChainIndex) bool {
		bi, ok := s.cm.BestIndex(idx.Height)
		return ok && bi == idx
	}
	for i, ru := range rus {
		cur := sub.sh.idx
		if ru.Block.ID() != cur.ID {
			e.Violationf(inv+".revert-contiguous", "wrong-block", "%s: revert %d is for block %v but the subscriber is at %v", sub.name, i, ru.Block.ID(), cur)
		}
		if ru.State.Index.ID != ru.Block.ParentID || ru.State.Index.Height+1 != cur.Height {
			e.Violationf(inv+".revert-contiguous", "wrong-parent", "%s: revert %d of %v leads to %v, not to its parent", sub.name, i, cur, ru.State.Index)
		}
		if onBest(cur) {
			e.Violationf(inv+".revert-contiguous", "reverted-best-chain-block", "%s: revert %d removes %v which is on the best chain", sub.name, i, cur)
		}
		e.Guard(inv+".panic", "fold revert", func() { sub.sh.revert(ru) })
	}
	if len(rus) > 0 {
		e.Probe("subscriber_reverted")
	}
	for i, au := range aus {
		cur := sub.sh.idx
		want := types.ChainIndex{Height: cur.Height + 1, ID: au.Block.ID()}
		if cur == (types.ChainIndex{}) {
			want.Height = 0
		} else if au.Block.ParentID != cur.ID {
			e.Violationf(inv+".apply-contiguous", "not-child", "%s: apply %d is block %v whose parent is %v, the subscriber is at %v", sub.name, i, au.Block.ID(), au.Block.ParentID, cur)
		}
		if au.State.Index != want {
			e.Violationf(inv+".apply-contiguous", "wrong-index", "%s: apply %d reports state index %v, expected %v", sub.name, i, au.State.Index, want)
		}
		if !onBest(want) {
			e.Violationf(inv+".apply-contiguous", "off-best-chain", "%s: apply %d adds %v which is not on the best chain", sub.name, i, want)
		}
		if len(rus) > 0 && i == 0 && !onBest(cur) {
			e.Violationf(inv+".revert-contiguous", "apply-before-fork-point", "%s: applies start at %v which is not on the best chain", sub.name, cur)
		}
		e.Guard(inv+".panic", "fold apply", func() { sub.sh.apply(au) })
		if n, ok := tree.ByID[want.ID]; !ok || !n.Valid() {
			e.Violationf(inv+".apply-contiguous", "unknown-block", "%s: apply %d is for a block that is not a valid block of the tree", sub.name, i)
		}
	}
	return len(rus) + len(aus)
}

// concurrentPoll is one UpdatesSince call issued while a submission was in
// progress. What the manager's best chain was at the instant the call took its
// snapshot is unknowable from outside, so the rules are those that hold for
// either answer: no error, at most max updates, reverts walk back block by
// block from the subscriber's index, applies walk forward child by child over
// valid blocks, and the path ends on the best chain as it was before the
// submission or as it is after it.
type concurrentPoll struct {
	sub   *subscriber
	start types.ChainIndex
	max   int
	delay int
	rus   []chain.RevertUpdate
	aus   []chain.ApplyUpdate
	err   error
}

func (cp *concurrentPoll) check(e *sim.Env, tree *gen.Tree, oldTip, newTip *gen.Node) {
	inv, sub := "C04", cp.sub
	if cp.err != nil {
		e.Violationf(inv+".updates-error", "error-concurrent", "%s: UpdatesSince(%v, %d) concurrent with a submission failed: %v", sub.name, cp.start, cp.max, cp.err)
	}
	if len(cp.rus)+len(cp.aus) > cp.max {
		e.Violationf(inv+".max-updates", "too-many", "%s: UpdatesSince(%v, %d) returned %d reverts + %d applies", sub.name, cp.start, cp.max, len(cp.rus), len(cp.aus))
	}
	for i, ru := range cp.rus {
		cur := sub.sh.idx
		if ru.Block.ID() != cur.ID {
			e.Violationf(inv+".revert-contiguous", "wrong-block", "%s (concurrent poll): revert %d is for block %v but the subscriber is at %v", sub.name, i, ru.Block.ID(), cur)
		}
		if ru.State.Index.ID != ru.Block.ParentID || ru.State.Index.Height+1 != cur.Height {
			e.Violationf(inv+".revert-contiguous", "wrong-parent", "%s (concurrent poll): revert %d of %v leads to %v, not to its parent", sub.name, i, cur, ru.State.Index)
		}
		e.Guard(inv+".panic", "fold revert", func() { sub.sh.revert(ru) })
	}
	for i, au := range cp.aus {
		cur := sub.sh.idx
		want := types.ChainIndex{Height: cur.Height + 1, ID: au.Block.ID()}
		if cur == (types.ChainIndex{}) {
			want.Height = 0
		} else if au.Block.ParentID != cur.ID {
			e.Violationf(inv+".apply-contiguous", "not-child", "%s (concurrent poll): apply %d is block %v whose parent is %v, the subscriber is at %v", sub.name, i, au.Block.ID(), au.Block.ParentID, cur)
		}
		if au.State.Index != want {
			e.Violationf(inv+".apply-contiguous", "wrong-index", "%s (concurrent poll): apply %d reports state index %v, expected %v", sub.name, i, au.State.Index, want)
		}
		if n, ok := tree.ByID[want.ID]; !ok || !n.Valid() {
			e.Violationf(inv+".apply-contiguous", "unknown-block", "%s (concurrent poll): apply %d is for a block that is not a valid block of the tree", sub.name, i)
		}
		e.Guard(inv+".panic", "fold apply", func() { sub.sh.apply(au) })
	}
	if len(cp.rus)+len(cp.aus) > 0 {
		// a chunk used up by reverts may end anywhere on the way back; one that
		// applies anything has passed the fork point
		end, ok := tree.ByID[sub.sh.idx.ID]
		if len(cp.aus) > 0 && (!ok || !(end.IsAncestorOf(oldTip) || end.IsAncestorOf(newTip))) {
			e.Violationf(inv+".apply-contiguous", "torn-path", "%s: a poll concurrent with the submission %s -> %s ends at %v, which is on neither best chain", sub.name, oldTip.Describe(), newTip.Describe(), sub.sh.idx)
		}
		if len(cp.aus) > 0 && len(cp.rus) > 0 {
			e.Probe("concurrent_poll_crossed_fork")
		}
		e.Probe("concurrent_poll_progress")
	}
}

// checkShadow compares a caught-up subscriber with the reference ledger.
func checkShadow(e *sim.Env, inv string, s *chainSUT, tree *gen.Tree, sub *subscriber) {
	n, ok := tree.ByID[sub.sh.idx.ID]
	if !ok || !n.Valid() {
		e.Violationf(inv+".shadow", "index-unknown", "%s sits at %v which is not a valid block", sub.name, sub.sh.idx)
	}
	if err := sub.sh.compare(n.L); err != nil {
		e.Violationf(inv+".shadow-ledger", "differs", "%s: the ledger folded from the update stream differs from the reference ledger at %s: %v", sub.name, n.Describe(), err)
	}
	if err := sub.sh.verify(n.L.State); err != nil {
		e.Violationf(inv+".shadow-ledger", "proof-invalid", "%s: a proof folded from the update stream does not verify at %s: %v", sub.name, n.Describe(), err)
	}
}

func runC04(e *sim.Env) {
	now := time.Now()
	net := gen.NewNet(e, now, gen.NetOpts{MaxHeight: 90})
	tree := gen.NewTree(net)
	s := newChainSUT(e, net, simdisk.New())
	e.Shape("net", net.Regime)
	tree.Grow(e, gen.GrowOpts{
		Blocks:    e.Range(6, 34),
		Corrupt:   e.Range(0, 2),
		MinerPool: []types.Address{types.VoidAddress, net.Actors[0].Addr},
		LongFork:  true,
		Block:     gen.BlockOpts{Mix: gen.FullMix, MaxTx: e.Range(0, 5), OrderSafe: true, Now: now, Strict: genStrict},
	})
	plan := makePlan(e, tree)

	// reorg notifications
	type note struct{ tip types.ChainIndex }
	var notes1, notes2 []note
	cancel1 := s.cm.OnReorg(func(idx types.ChainIndex) {
		notes1 = append(notes1, note{idx})
		sim.YieldPoint("listener") // listeners run outside the manager's lock: let others in
	})
	var args2 []types.ChainIndex
	s.cm.OnReorg(func(idx types.ChainIndex) {
		// a listener may call back into the manager
		t := s.cm.Tip()
		s.cm.BestIndex(t.Height)
		notes2 = append(notes2, note{t})
		args2 = append(args2, idx)
		sim.YieldPoint("listener")
	})
	cancelled := false

	subs := []*subscriber{{name: "sub0", sh: newShadow()}}
	var reached []*shadow // snapshots a new subscriber may start from
	nextSub := 1
	tip := tree.Genesis
	for _, batch := range plan {
		if len(batch) == 0 {
			continue
		}
		e.Step()
		n1, n2 := len(notes1), len(notes2)
		var err error
		call := "AddBlocks"
		states, viaValidated := s.validatedStates(batch)
		viaValidated = viaValidated && e.Chance(1, 2)
		if viaValidated {
			// the syncer's second entry point
			call = "AddValidatedV2Blocks"
			e.Probe("via_add_validated")
		}
		submit := func() {
			if viaValidated {
				err = s.cm.AddValidatedV2Blocks(blocksOf(batch), states)
			} else {
				err = s.cm.AddBlocks(blocksOf(batch))
			}
		}
		// lock-yield flavour, 1 submission in 2: subscribers poll while the
		// submission (and its reorg) is in progress; the seeded scheduler decides
		// every Lock / Unlock of the manager
		var cps []*concurrentPoll
		// ... and, in 1 of 2 of those, another goroutine registers and cancels
		// short-lived listeners meanwhile
		churn := 0
		if (sim.LockYields || sim.RaceBuild) && len(subs) > 0 && e.Chance(1, 2) {
			for _, sub := range subs {
				if len(cps) < 3 && e.Chance(2, 3) {
					cps = append(cps, &concurrentPoll{sub: sub, start: sub.sh.idx, max: e.Range(1, 8), delay: e.Range(0, 10)})
				}
			}
			if e.Chance(1, 2) {
				churn = e.Range(1, 4)
			}
		}
		if len(cps) > 0 || churn > 0 {
			var crash string
			e.WithSchedule(400, func() {
				var wg sync.WaitGroup
				guard := func(fn func()) {
					wg.Add(1)
					go func() {
						defer wg.Done()
						defer func() {
							if x := recover(); x != nil && crash == "" {
								crash = fmt.Sprintf("%v\n%s", x, debug.Stack())
							}
						}()
						fn()
					}()
				}
				guard(submit)
				for _, cp := range cps {
					cp := cp
					guard(func() {
						// let the submission get a drawn number of scheduling
						// points ahead (into its reorg) before asking
						for i := 0; i < cp.delay; i++ {
							sim.YieldPoint("poll-start")
						}
						cp.rus, cp.aus, cp.err = s.cm.UpdatesSince(cp.start, cp.max)
					})
				}
				if churn > 0 {
					guard(func() {
						for i := 0; i < churn; i++ {
							sim.YieldPoint("churn")
							c1 := s.cm.OnReorg(func(types.ChainIndex) { sim.YieldPoint("churn-listener") })
							c2 := s.cm.OnPoolChange(func() {})
							sim.YieldPoint("churn")
							c1()
							c2()
						}
					})
					e.Fault("listeners-registered-and-cancelled-during-submission")
				}
				wg.Wait()
			})
			if crash != "" {
				if sim.PanicInSUT(crash) {
					e.Violationf("C04.panic", "concurrent", "%s concurrent with UpdatesSince panicked: %.1500s", call, crash)
				}
				panic("C04 concurrent phase: " + crash)
			}
			e.Fault("polls-concurrent-with-submission")
		} else {
			e.Guard("C04.panic", call, submit)
		}
		newTip := auditBestChain(e, "C04", s, tree)
		e.Logf("%s(%d, last %s) -> err=%v tip %s", call, len(batch), batch[len(batch)-1].Describe(), err != nil, newTip.Describe())
		// notifications: whenever, and only when, the tip changed
		d1, d2 := len(notes1)-n1, len(notes2)-n2
		if cancelled {
			d1 = d2
		}
		switch {
		case newTip != tip && (d2 != 1 || d1 != 1):
			e.Violationf("C04.reorg-notification", "missing", "the tip changed %s -> %s but the listeners were called %d / %d times", tip.Describe(), newTip.Describe(), d1, d2)
		case newTip == tip && (d2 != 0 || (!cancelled && d1 != 0)):
			e.Violationf("C04.reorg-notification", "spurious", "the tip did not change (err=%v) but the listeners were called %d / %d times", err, d1, d2)
		case newTip != tip && notes2[len(notes2)-1].tip != newTip.Index():
			e.Violationf("C04.reorg-notification", "wrong-tip", "a listener calling Tip() from inside the notification saw %v, the tip is %v", notes2[len(notes2)-1].tip, newTip.Index())
		case newTip != tip && args2[len(args2)-1] != newTip.Index():
			e.Violationf("C04.reorg-notification", "wrong-tip-argument", "%s moved the tip %s -> %s but the listeners were called with %v", call, tip.Describe(), newTip.Describe(), args2[len(args2)-1])
		case newTip != tip && !cancelled && notes1[len(notes1)-1].tip != newTip.Index():
			e.Violationf("C04.reorg-notification", "wrong-tip-argument", "%s moved the tip %s -> %s but the listeners were called with %v", call, tip.Describe(), newTip.Describe(), notes1[len(notes1)-1].tip)
		}
		if newTip != tip {
			fork := gen.CommonAncestor(tip, newTip)
			if d := int(tip.Height - fork.Height); d > 0 {
				e.Nontrivial = true
				e.Shape("reorg", bucket(d))
			}
		}
		for _, cp := range cps {
			cp.check(e, tree, tip, newTip)
		}
		tip = newTip
		if !cancelled && e.Chance(1, 20) {
			cancel1()
			cancelled = true
		}

		// subscribers poll in drawn chunks, some lag behind
		for _, sub := range subs {
			polls := e.Range(0, 3)
			for p := 0; p < polls; p++ {
				max := e.Range(1, 8)
				got := pollOnce(e, "C04", s, tree, sub, max)
				e.Shape("poll", fmt.Sprint(got > 0))
				if sub.sh.idx != (types.ChainIndex{}) && e.Chance(1, 6) && len(reached) < 12 {
					reached = append(reached, sub.sh.clone())
				}
				if sub.sh.idx == tip.Index() {
					checkShadow(e, "C04", s, tree, sub)
					e.Probe("subscriber_caught_up")
					break
				}
			}
		}
		// a new subscriber starts from nothing or from an index reached before
		if len(subs) < 6 && e.Chance(1, 4) {
			ns := &subscriber{name: fmt.Sprintf("sub%d", nextSub), sh: newShadow()}
			nextSub++
			if len(reached) > 0 && e.Chance(2, 3) {
				ns.sh = reached[e.Intn(len(reached))].clone()
				if bi, ok := s.cm.BestIndex(ns.sh.idx.Height); !ok || bi != ns.sh.idx {
					e.Probe("subscriber_on_stale_branch")
				}
			}
			subs = append(subs, ns)
		}
	}
	// with no further submissions every subscriber reaches the tip
	for _, sub := range subs {
		for i := 0; sub.sh.idx != tip.Index(); i++ {
			if pollOnce(e, "C04", s, tree, sub, e.Range(1, 8)) == 0 || i > 400 {
				e.Violationf("C04.reaches-tip", "never", "%s stops at %v, the tip is %v", sub.name, sub.sh.idx, tip.Index())
			}
		}
		checkShadow(e, "C04", s, tree, sub)
	}
}

func init() {
	register(&Prop{
		ID: "C04", Run: runC04, Race: true, Flavour: "instrumented", Quick: 1600, Thorough: 25000, Level: "exploration",
		Rule:        "one run = C02-style history with 1-6 subscribers that start from nothing or from a snapshot of any index a subscriber reached before (including indices on branches that are stale by now), poll UpdatesSince with chunk sizes 1-8 at drawn moments between submissions and fold the returned diffs and proof updates into a shadow ledger; every poll is checked for the chunk bound and for contiguity (reverts walk back block by block off the best chain, applies walk forward on it); whenever a subscriber has caught up its shadow ledger must equal the reference ledger (elements, leaf indices, proofs, chain index elements) and verify against the accumulator; in the lock-yield flavour 1 submission in 3 runs concurrently with up to 3 UpdatesSince calls under the seeded lock-level scheduler (no error, chunk bound, contiguity, path ends on the best chain before or after the submission; the folded ledger is compared as usual once the subscriber has caught up); two OnReorg listeners (one calling back into the manager, one cancelled at a drawn moment) must be called exactly when the tip changed; distinct = abstract trace; non-trivial = a reorg that reverts blocks",
		Real:        []string{"chain.Manager (UpdatesSince, OnReorg)", "chain.DBStore"},
		Stub:        []string{"disk: simdisk.DB"},
		Assumptions: []string{"concurrent polls are judged by the rules that hold whichever side of the submission the call landed on (the instant of its snapshot is not observable)"},
	})
}
