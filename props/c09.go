package props

import (
	"bytes"
	"context"
	"encoding/binary"
	"fmt"
	"sort"
	"sync"

	proto4 "go.sia.tech/core/rhp/v4"
	"go.sia.tech/core/types"
	rhp4 "go.sia.tech/coreutils/rhp/v4"

	"verif/gen"
	"verif/sim"
	"verif/simrhp"
)

// testSector returns sector number i (distinct content) and its root; cached
// per worker process.
var sectorCache sync.Map

type cachedSector struct {
	data *[proto4.SectorSize]byte
	root types.Hash256
}

func testSector(i int) cachedSector {
	if v, ok := sectorCache.Load(i); ok {
		return v.(cachedSector)
	}
	var d [proto4.SectorSize]byte
	binary.LittleEndian.PutUint64(d[:], uint64(i)+1)
	copy(d[100:], "verif sector")
	cs := cachedSector{data: &d, root: proto4.SectorRoot(&d)}
	sectorCache.Store(i, cs)
	return cs
}

// abort kinds for the two multi-round sector RPCs
var abortKinds = []string{"none", "drop-request", "drop-first-response", "drop-renter-signature", "corrupt-renter-signature", "truncate-renter-signature", "drop-host-signature", "cut-after-first-response"}

// abortHook builds the relay hook realising abort kind k for the given RPC.
func abortHook(e *sim.Env, rpc types.Specifier, kind string, armed *bool) simrhp.Hook {
	return func(_ int, id types.Specifier, step int, st simrhp.Step, o proto4.Object, raw []byte) simrhp.Action {
		if !*armed || id != rpc || raw != nil {
			return simrhp.Pass
		}
		fire := func(a simrhp.Action) simrhp.Action {
			*armed = false
			e.Fault("abort-" + kind)
			return a
		}
		switch {
		case kind == "drop-request" && step == 0:
			return fire(simrhp.Drop)
		case kind == "drop-first-response" && step == 1:
			return fire(simrhp.Drop)
		case kind == "cut-after-first-response" && step == 1:
			return fire(simrhp.CutAfter)
		case kind == "drop-renter-signature" && step == 2:
			return fire(simrhp.Drop)
		case kind == "truncate-renter-signature" && step == 2:
			return fire(simrhp.Truncate)
		case kind == "corrupt-renter-signature" && step == 2:
			switch m := o.(type) {
			case *proto4.RPCFreeSectorsSecondResponse:
				m.RenterSignature[7] ^= 0x10
			case *proto4.RPCAppendSectorsSecondResponse:
				m.RenterSignature[7] ^= 0x10
			}
			return fire(simrhp.Pass)
		case kind == "drop-host-signature" && step == 3:
			return fire(simrhp.Drop)
		}
		return simrhp.Pass
	}
}

type c09Rig struct {
	*rhpRig
	contract rhp4.ContractRevision
	model    []types.Hash256
	hook     simrhp.Hook
	acct     types.PrivateKey
}

func newC09Rig(e *sim.Env) *c09Rig {
	c := &c09Rig{}
	c.rhpRig = newRHPRig(e, "C09", simrhp.TypedRelay(func(n int, id types.Specifier, step int, st simrhp.Step, o proto4.Object, raw []byte) simrhp.Action {
		if c.hook != nil {
			return c.hook(n, id, step, st, o, raw)
		}
		return simrhp.Pass
	}))
	c.contract = c.form(types.Siacoins(5000), types.Siacoins(8000), 150)
	c.mine(1)
	c.refreshPrices()
	// an account for read-backs
	c.acct = c.newAccountKey()
	var err error
	var fr rhp4.RPCFundAccountResult
	e.Guard("C09.panic", "RPCFundAccounts", func() {
		fr, err = rhp4.RPCFundAccounts(context.Background(), c.tr, c.cs(), c.signer, c.contract, []proto4.AccountDeposit{{Account: proto4.Account(c.acct.PublicKey()), Amount: types.Siacoins(50)}})
	})
	if err != nil {
		e.Violationf("C09.honest-rpc", "fund", "honest RPCFundAccounts failed: %v", err)
	}
	c.contract.Revision = fr.Revision
	return c
}

// resync fetches the host's latest revision, as a renter does after a failure.
func (c *c09Rig) resync() {
	var lr proto4.RPCLatestRevisionResponse
	var err error
	c.e.Guard("C09.panic", "RPCLatestRevision", func() { lr, err = rhp4.RPCLatestRevision(context.Background(), c.tr, c.contract.ID) })
	if err != nil {
		c.e.Violationf("C09.honest-rpc", "latest-revision", "RPCLatestRevision failed: %v", err)
	}
	c.contract.Revision = lr.Contract
}

func applyFreeModel(model []types.Hash256, indices []uint64) []types.Hash256 {
	idx := append([]uint64(nil), indices...)
	sort.Slice(idx, func(i, j int) bool { return idx[i] > idx[j] })
	out := append([]types.Hash256(nil), model...)
	var last uint64 = ^uint64(0)
	for _, n := range idx {
		if n == last {
			continue // duplicates count once
		}
		last = n
		out[n] = out[len(out)-1]
		out = out[:len(out)-1]
	}
	return out
}

// attempt runs one append or free with the given abort kind and checks the
// host's state afterwards.
func (c *c09Rig) attempt(op string, roots []types.Hash256, indices []uint64, kind string) {
	e := c.e
	e.Step()
	before, err := c.hostState(c.contract.ID)
	if err != nil {
		e.Violationf("C09.host-state", "lock", "cannot read the host's contract state: %v", err)
	}
	hostBal := c.hw
	_ = hostBal
	nCalls := len(c.contractor.calls)
	armed := kind != "none"
	rpcID := proto4.RPCAppendSectorsID
	if op == "free" {
		rpcID = proto4.RPCFreeSectorsID
	}
	c.hook = abortHook(e, rpcID, kind, &armed)
	var rerr error
	var newRev types.V2FileContract
	var accepted []types.Hash256
	e.Guard("C09.panic", "RPC "+op, func() {
		if op == "free" {
			var res rhp4.RPCFreeSectorsResult
			res, rerr = rhp4.RPCFreeSectors(context.Background(), c.tr, c.signer, c.cs(), c.prices, c.contract, indices)
			newRev = res.Revision
		} else {
			var res rhp4.RPCAppendSectorsResult
			res, rerr = rhp4.RPCAppendSectors(context.Background(), c.tr, c.signer, c.cs(), c.prices, c.contract, roots)
			newRev, accepted = res.Revision, res.Sectors
		}
	})
	c.hook = nil
	// let the host's handler finish whatever it was doing
	waitQuiet()
	committed := false
	for _, call := range c.contractor.calls[nCalls:] {
		if call.method == "ReviseV2Contract" && call.err == nil {
			committed = true
		}
	}
	after, err := c.hostState(c.contract.ID)
	if err != nil {
		e.Violationf("C09.host-state", "lock-after", "cannot read the host's contract state after %s (%s): %v", op, kind, err)
	}
	e.Logf("%s(%v%v) abort=%s -> renter err=%v, host committed=%v, %d -> %d roots", op, indices, len(roots), kind, rerr != nil, committed, len(before.Roots), len(after.Roots))
	e.Shape(op, kind, fmt.Sprint(rerr != nil), fmt.Sprint(committed), bucket(len(before.Roots)))
	if err := rootsMatchRevision(after); err != nil {
		e.Violationf("C09.roots-match-revision", op+":"+kind, "after %s (abort %s, renter err=%v, host committed=%v): %v", op, kind, rerr, committed, err)
	}
	if !committed {
		if !bytes.Equal(gen.Enc(before.Revision), gen.Enc(after.Revision)) || fmt.Sprint(before.Roots) != fmt.Sprint(after.Roots) {
			e.Violationf("C09.abandoned-leaves-state", op+":"+kind, "%s abandoned (%s) without the host committing a revision, yet its state changed: revision %d -> %d, roots %v -> %v", op, kind, before.Revision.RevisionNumber, after.Revision.RevisionNumber, short(before.Roots), short(after.Roots))
		}
		if rerr == nil {
			e.Violationf("C09.renter-success-implies-commit", op+":"+kind, "the renter's %s reported success but the host committed nothing", op)
		}
	} else {
		if op == "free" {
			c.model = applyFreeModel(c.model, indices)
		} else {
			for _, r := range roots {
				if ok, _ := c.sectors.HasSector(r); ok {
					c.model = append(c.model, r)
				}
			}
		}
		if fmt.Sprint(after.Roots) != fmt.Sprint(c.model) {
			e.Violationf("C09.list-model", op, "after %s(%v) the host's roots are %v, the list model (append at the end, swap-remove from the end) says %v", op, indices, short(after.Roots), short(c.model))
		}
	}
	if rerr == nil {
		if kind != "none" && kind != "corrupt-renter-signature" {
			// nothing was cut after all (the abort point does not exist in this exchange)
		}
		if !bytes.Equal(gen.Enc(newRev), gen.Enc(after.Revision)) {
			e.Violationf("C09.same-revision", op, "the renter's %s succeeded with revision %d but the host holds revision %d (or different content)", op, newRev.RevisionNumber, after.Revision.RevisionNumber)
		}
		if op == "append" {
			want := 0
			for _, r := range roots {
				if ok, _ := c.sectors.HasSector(r); ok {
					want++
				}
			}
			if len(accepted) != want {
				e.Violationf("C09.list-model", "accepted-count", "append of %d roots (%d stored on the host) reported %d accepted", len(roots), want, len(accepted))
			}
		}
		c.contract.Revision = newRev
	} else {
		c.resync()
		if kind == "none" {
			e.Violationf("C09.honest-rpc", op, "honest %s(%v) failed: %v", op, indices, rerr)
		}
	}
	if !bytes.Equal(gen.Enc(c.contract.Revision), gen.Enc(after.Revision)) {
		e.Violationf("C09.latest-revision", "differs", "RPCLatestRevision / returned revision differs from the host's stored revision")
	}
}

func short(roots []types.Hash256) []string {
	out := make([]string, len(roots))
	for i, r := range roots {
		out[i] = r.String()[:6]
	}
	return out
}

// waitQuiet lets every goroutine of the bubble run until it blocks.
func waitQuiet() { synctestWait() }

// listAndRead lists the roots with proofs and reads every listed sector back.
func (c *c09Rig) listAndRead() {
	e := c.e
	n := uint64(len(c.model))
	if n == 0 {
		return
	}
	off := uint64(e.Intn(int(n)))
	l := uint64(e.Range(1, int(n-off)))
	var res rhp4.RPCSectorRootsResult
	var err error
	e.Guard("C09.panic", "RPCSectorRoots", func() {
		res, err = rhp4.RPCSectorRoots(context.Background(), c.tr, c.cs(), c.prices, c.signer, c.contract, off, l)
	})
	if err != nil {
		e.Violationf("C09.roots-listable", "error", "RPCSectorRoots(%d,%d) of %d failed: %v", off, l, n, err)
	}
	c.contract.Revision = res.Revision
	if fmt.Sprint(res.Roots) != fmt.Sprint(c.model[off:off+l]) {
		e.Violationf("C09.roots-listable", "differs", "RPCSectorRoots(%d,%d) returned %v, the model says %v", off, l, short(res.Roots), short(c.model[off:off+l]))
	}
	for _, root := range res.Roots {
		var buf bytes.Buffer
		var rerr error
		e.Guard("C09.panic", "RPCReadSector", func() {
			_, rerr = rhp4.RPCReadSector(context.Background(), c.tr, c.prices, c.token(c.acct), &buf, root, 0, 64)
		})
		if rerr != nil {
			e.Violationf("C09.sectors-readable", "error", "listed sector %v cannot be read back: %v", root, rerr)
		}
		if buf.Len() != 64 {
			e.Violationf("C09.sectors-readable", "length", "read-back of sector %v returned %d bytes", root, buf.Len())
		}
	}
	e.Probe("listed_and_read_back")
}

// renewCall is one renewal / refresh through the real client.
func (c *c09Rig) renewCall(ctx context.Context, op string, allowance, collateral types.Currency) (got rhp4.ContractRevision, err error) {
	switch op {
	case "renew":
		var res rhp4.RPCRenewContractResult
		res, err = rhp4.RPCRenewContract(ctx, c.tr, c.rs.cm, c.signer, c.cs(), c.prices, c.hw.Address(), c.contract.Revision, proto4.RPCRenewContractParams{
			ContractID: c.contract.ID, Allowance: allowance, Collateral: collateral, ProofHeight: c.contract.Revision.ProofHeight + 10,
		})
		got = res.Contract
	case "refresh-full":
		var res rhp4.RPCRefreshContractResult
		res, err = rhp4.RPCRefreshContractFullRollover(ctx, c.tr, c.rs.cm, c.signer, c.cs(), c.prices, c.hw.Address(), c.contract.Revision, proto4.RPCRefreshContractParams{
			ContractID: c.contract.ID, Allowance: allowance, Collateral: collateral,
		})
		got = res.Contract
	case "refresh-partial":
		var res rhp4.RPCRefreshContractResult
		res, err = rhp4.RPCRefreshContractPartialRollover(ctx, c.tr, c.rs.cm, c.signer, c.cs(), c.prices, c.hw.Address(), c.contract.Revision, proto4.RPCRefreshContractParams{
			ContractID: c.contract.ID, Allowance: allowance, Collateral: collateral,
		})
		got = res.Contract
	}
	return
}

// renew replaces the contract by a renewal or a refresh: the host's roots for
// the new contract are those of the old one, matching what the new contract
// commits to; a refused renewal leaves the old contract as it was.
func (c *c09Rig) renew() {
	e := c.e
	e.Step()
	op := []string{"renew", "refresh-full", "refresh-partial"}[e.Intn(3)]
	before, err := c.hostState(c.contract.ID)
	if err != nil {
		e.Violationf("C09.host-state", "lock", "cannot read the host's contract state: %v", err)
	}
	allowance, collateral := types.Siacoins(uint32(e.Range(50, 300))), types.Siacoins(uint32(e.Range(50, 300)))
	if min := proto4.MinRenterAllowance(c.prices, collateral); allowance.Cmp(min) < 0 {
		allowance = min.Mul64(2)
	}
	ctx := context.Background()
	var got rhp4.ContractRevision
	var rerr error
	// 1 renewal in 3 is held up while the host waits for the renter's
	// signatures (the contract is locked by it), and two other RPCs on the same
	// contract arrive on streams of their own meanwhile
	contended := e.Chance(1, 3)
	if contended {
		reached, gate := make(chan struct{}), make(chan struct{})
		once := false
		c.hook = func(_ int, id types.Specifier, step int, st simrhp.Step, o proto4.Object, raw []byte) simrhp.Action {
			if !once && st.FromRenter && step == 2 && (id == proto4.RPCRenewContractID || id == proto4.RPCRefreshContractID || id == proto4.RPCRefreshPartialID) {
				once = true
				close(reached)
				<-gate
			}
			return simrhp.Pass
		}
		done := make(chan struct{})
		var rp any
		go func() {
			defer close(done)
			defer func() { rp = recover() }()
			got, rerr = c.renewCall(ctx, op, allowance, collateral)
		}()
		select {
		case <-reached:
			var lerr, aerr error
			var ares rhp4.RPCAppendSectorsResult
			root := testSector(e.Intn(10)).root
			e.Guard("C09.panic", "RPCs on a contract that is being renewed", func() {
				_, lerr = rhp4.RPCLatestRevision(ctx, c.tr, c.contract.ID)
				ares, aerr = rhp4.RPCAppendSectors(ctx, c.tr, c.signer, c.cs(), c.prices, c.contract, []types.Hash256{root})
			})
			e.Logf("while the %s waits for the renter: latest revision err=%v, append err=%v", op, lerr != nil, aerr != nil)
			if aerr == nil && len(ares.Sectors) == 1 {
				c.model = append(c.model, root)
				c.contract.Revision = ares.Revision
				e.Probe("append_served_during_renewal")
			}
			e.Fault("rpcs-during-held-renewal")
			close(gate)
		case <-done:
			close(gate)
		}
		<-done
		c.hook = nil
		if rp != nil {
			panic(rp)
		}
		waitQuiet()
		goto finished
	}
	e.Guard("C09.panic", "RPC "+op, func() {
		switch op {
		case "renew":
			var res rhp4.RPCRenewContractResult
			res, rerr = rhp4.RPCRenewContract(ctx, c.tr, c.rs.cm, c.signer, c.cs(), c.prices, c.hw.Address(), c.contract.Revision, proto4.RPCRenewContractParams{
				ContractID: c.contract.ID, Allowance: allowance, Collateral: collateral, ProofHeight: c.contract.Revision.ProofHeight + uint64(e.Range(1, 50)),
			})
			got = res.Contract
		case "refresh-full":
			var res rhp4.RPCRefreshContractResult
			res, rerr = rhp4.RPCRefreshContractFullRollover(ctx, c.tr, c.rs.cm, c.signer, c.cs(), c.prices, c.hw.Address(), c.contract.Revision, proto4.RPCRefreshContractParams{
				ContractID: c.contract.ID, Allowance: allowance, Collateral: collateral,
			})
			got = res.Contract
		case "refresh-partial":
			var res rhp4.RPCRefreshContractResult
			res, rerr = rhp4.RPCRefreshContractPartialRollover(ctx, c.tr, c.rs.cm, c.signer, c.cs(), c.prices, c.hw.Address(), c.contract.Revision, proto4.RPCRefreshContractParams{
				ContractID: c.contract.ID, Allowance: allowance, Collateral: collateral,
			})
			got = res.Contract
		}
	})
	waitQuiet()
finished:
	e.Logf("%s with %d roots (contended=%v) -> err=%v", op, len(c.model), contended, rerr)
	e.Shape(op, fmt.Sprint(rerr != nil), bucket(len(c.model)))
	if rerr != nil {
		// the host's policy may refuse (collateral limits); nothing changed then
		after, err := c.hostState(c.contract.ID)
		if err != nil {
			e.Violationf("C09.host-state", "lock-after", "cannot read the host's contract state after a refused %s: %v", op, err)
		}
		if !bytes.Equal(gen.Enc(before.Revision), gen.Enc(after.Revision)) || fmt.Sprint(before.Roots) != fmt.Sprint(after.Roots) {
			e.Violationf("C09.abandoned-leaves-state", op, "%s failed (%v), yet the host's state of the contract changed: revision %d -> %d, roots %v -> %v", op, rerr, before.Revision.RevisionNumber, after.Revision.RevisionNumber, short(before.Roots), short(after.Roots))
		}
		e.Probe("renewal_refused")
		c.resync()
		return
	}
	oldID := c.contract.ID
	c.mine(1)
	c.refreshPrices()
	c.contract = got
	// the renewed contract, as long as the host still reports it, keeps roots
	// that match the revision it reports
	if old, oerr := c.hostState(oldID); oerr == nil {
		if err := rootsMatchRevision(old); err != nil {
			e.Violationf("C09.roots-match-revision", op+":old-contract", "after %s was confirmed, the host's state of the old contract: %v", op, err)
		}
	}
	after, err := c.hostState(got.ID)
	if err != nil {
		e.Violationf("C09.host-state", "renewed", "cannot read the host's state of the contract made by %s: %v", op, err)
	}
	if err := rootsMatchRevision(after); err != nil {
		e.Violationf("C09.roots-match-revision", op, "after %s of a contract with %d sectors: %v", op, len(c.model), err)
	}
	if fmt.Sprint(after.Roots) != fmt.Sprint(c.model) {
		e.Violationf("C09.list-model", op, "after %s the host's roots for the new contract are %v, the old contract had %v", op, short(after.Roots), short(c.model))
	}
	if !bytes.Equal(gen.Enc(got.Revision), gen.Enc(after.Revision)) {
		e.Violationf("C09.same-revision", op, "the renter's %s returned a contract that differs from the one the host holds", op)
	}
	e.Probe("contract_renewed_with_sectors")
}

const c09Parts = 64

func runC09(e *sim.Env) {
	c := newC09Rig(e)
	// make a pool of stored sectors (some roots stay unknown to the host)
	nStored := 10
	for i := 0; i < nStored; i++ {
		s := testSector(i)
		if err := c.sectors.EphemeralSectorStore.StoreSector(s.root, s.data, nil, 1<<40); err != nil {
			e.Infraf("StoreSector: %v", err)
		}
	}
	fresh := 0
	nextRoot := func(unknownOK bool) types.Hash256 {
		if unknownOK && e.Chance(1, 6) {
			var r types.Hash256
			copy(r[:], e.Bytes(32))
			return r
		}
		fresh++
		return testSector(fresh % nStored).root
	}
	grow := func(n int) {
		for len(c.model) < n {
			var roots []types.Hash256
			for i := len(c.model); i < n; i++ {
				roots = append(roots, nextRoot(false))
			}
			c.attempt("append", roots, nil, "none")
		}
	}
	if e.Index < c09Parts {
		// small-scope enumeration: sizes 0..6 x index sequences (with
		// repetition) of length 1..3 x every abort point, partitioned
		e.Shape("enumerated")
		e.Nontrivial = true
		part := int(e.Index)
		k := 0
		for size := 0; size <= 6; size++ {
			var seqs [][]uint64
			for a := 0; a < size; a++ {
				seqs = append(seqs, []uint64{uint64(a)})
				for b := 0; b < size; b++ {
					seqs = append(seqs, []uint64{uint64(a), uint64(b)})
					for d := 0; d < size; d++ {
						seqs = append(seqs, []uint64{uint64(a), uint64(b), uint64(d)})
					}
				}
			}
			if size > 0 {
				all := make([]uint64, size)
				for i := range all {
					all[i] = uint64(i)
				}
				seqs = append(seqs, all)
			}
			for _, seq := range seqs {
				for _, kind := range abortKinds {
					k++
					if k%c09Parts != part {
						continue
					}
					grow(size)
					c.attempt("free", nil, seq, kind)
					e.Probe("enumerated_free_case")
				}
			}
			// appends at this size, every abort point
			for _, kind := range abortKinds {
				k++
				if k%c09Parts != part {
					continue
				}
				grow(size)
				c.attempt("append", []types.Hash256{nextRoot(false), nextRoot(true)}, nil, kind)
				e.Probe("enumerated_append_case")
			}
		}
		c.listAndRead()
		return
	}
	// seeded longer sequences
	e.Nontrivial = true
	steps := e.Range(6, 30)
	for i := 0; i < steps; i++ {
		kind := "none"
		if e.Chance(1, 3) {
			kind = abortKinds[e.Intn(len(abortKinds))]
		}
		if len(c.model) == 0 || (len(c.model) < 40 && e.Chance(3, 5)) {
			var roots []types.Hash256
			for j, n := 0, e.Range(1, 6); j < n; j++ {
				roots = append(roots, nextRoot(true))
			}
			c.attempt("append", roots, nil, kind)
		} else {
			var idx []uint64
			for j, n := 0, e.Range(1, min(len(c.model), 8)); j < n; j++ {
				idx = append(idx, uint64(e.Intn(len(c.model))))
			}
			c.attempt("free", nil, idx, kind)
		}
		if e.Chance(1, 8) {
			c.renew()
		}
		if e.Chance(1, 5) {
			c.listAndRead()
		}
	}
	c.listAndRead()
}

func init() {
	register(&Prop{
		ID: "C09", Run: runC09, Quick: 160, Thorough: 4000, Level: "fault_enumeration",
		Rule:        "runs 0..63 enumerate (partitioned) every contract size 0-6 x every index sequence with repetition of length 1-3 (plus 'all') passed to the real RPCFreeSectors client x every abort point of the exchange {none, request dropped, first response dropped, stream cut after first response, renter signature dropped / corrupted / truncated mid-message, host signature dropped after the host persisted}, and appends (known and unknown roots) x the same abort points; later runs draw append/free sequences up to 40 sectors with drawn aborts, and renew / refresh (full, partial) the contract in between (1 in 3 held up while the host waits for the renter's signatures, with a latest-revision call and an append arriving on other streams meanwhile), after which the new contract's roots have to be the old one's; after every attempt: MetaRoot(host roots) == FileMerkleRoot and count*SectorSize == Filesize of the host's committed revision, an attempt the host did not commit leaves revision and roots byte-identical, a committed one equals the list model, renter success implies the same revision on both sides; roots listed with RPCSectorRoots verify and match, every listed sector reads back; distinct = abstract trace (op, abort kind, outcome, size bucket); all runs non-trivial",
		Real:        []string{"rhp4.Server", "rhp4 RPC* client functions", "wallet.SingleAddressWallet x2", "chain.Manager", "testutil.EphemeralContractor / EphemeralSectorStore (in-repo reference implementations) behind recording wrappers"},
		Stub:        []string{"transport: simrhp in-memory streams with typed relay (siamux/QUIC are not the subject)", "disk: simdisk.DB"},
		Assumptions: []string{"the 'simple list model' is applied to the indices as the real client normalises them (descending, duplicates once)"},
	})
}
