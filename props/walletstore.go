package props

import (
	"bytes"
	"errors"
	"sort"
	"time"

	"go.sia.tech/core/types"
	"go.sia.tech/coreutils/chain"
	"go.sia.tech/coreutils/wallet"
)

// walletStore is the harness-owned wallet.SingleAddressStore: deterministic
// iteration order, survives a wallet "restart", and records as its tip
// exactly the index the update stream left it at (after a revert that is the
// parent of the reverted block, which the stream names).
type walletStore struct {
	tip    types.ChainIndex
	utxos  map[types.SiacoinOutputID]types.SiacoinElement
	events []wallet.Event
	sets   []wallet.BroadcastedSet

	// yield, if set, is called inside store methods that the wallet invokes
	// within its critical sections (lock-level schedule exploration)
	yield func(site string)
}

var _ wallet.SingleAddressStore = (*walletStore)(nil)

func newWalletStore() *walletStore {
	return &walletStore{utxos: map[types.SiacoinOutputID]types.SiacoinElement{}}
}

type walletTx struct{ s *walletStore }

func (t *walletTx) UpdateWalletSiacoinElementProofs(pu wallet.ProofUpdater) error {
	for id, se := range t.s.utxos {
		pu.UpdateElementProof(&se.StateElement)
		t.s.utxos[id] = se
	}
	return nil
}

func (t *walletTx) WalletApplyIndex(index types.ChainIndex, created, spent []types.SiacoinElement, events []wallet.Event, _ time.Time) error {
	for _, se := range spent {
		if _, ok := t.s.utxos[se.ID]; !ok {
			return errors.New("walletStore: spent element does not exist")
		}
		delete(t.s.utxos, se.ID)
	}
	for _, se := range created {
		if _, ok := t.s.utxos[se.ID]; ok {
			return errors.New("walletStore: duplicate element")
		}
		t.s.utxos[se.ID] = se.Copy()
	}
	t.s.events = append(t.s.events, events...)
	t.s.tip = index
	return nil
}

func (t *walletTx) WalletRevertIndex(index types.ChainIndex, removed, unspent []types.SiacoinElement, _ time.Time) error {
	kept := t.s.events[:0]
	for _, ev := range t.s.events {
		if ev.Index != index {
			kept = append(kept, ev)
		}
	}
	t.s.events = kept
	for _, se := range removed {
		delete(t.s.utxos, se.ID)
	}
	for _, se := range unspent {
		t.s.utxos[se.ID] = se.Copy()
	}
	return nil
}

// sync feeds one chunk of the update stream to the wallet and records the
// index the stream left the store at.
func (s *walletStore) sync(w *wallet.SingleAddressWallet, rus []chain.RevertUpdate, aus []chain.ApplyUpdate) error {
	if err := w.UpdateChainState(&walletTx{s}, rus, aus); err != nil {
		return err
	}
	switch {
	case len(aus) > 0:
		s.tip = aus[len(aus)-1].State.Index
	case len(rus) > 0:
		s.tip = rus[len(rus)-1].State.Index
	}
	return nil
}

func (s *walletStore) Tip() (types.ChainIndex, error) { return s.tip, nil }

func (s *walletStore) sortedUTXOs() []types.SiacoinElement {
	out := make([]types.SiacoinElement, 0, len(s.utxos))
	for _, se := range s.utxos {
		out = append(out, se.Copy())
	}
	sort.Slice(out, func(i, j int) bool { return bytes.Compare(out[i].ID[:], out[j].ID[:]) < 0 })
	return out
}

func (s *walletStore) UnspentSiacoinElements() (types.ChainIndex, []types.SiacoinElement, error) {
	if s.yield != nil {
		s.yield("store.UnspentSiacoinElements")
	}
	return s.tip, s.sortedUTXOs(), nil
}

func (s *walletStore) WalletEvent(id types.Hash256) (wallet.Event, error) {
	for _, ev := range s.events {
		if ev.ID == id {
			return ev, nil
		}
	}
	return wallet.Event{}, wallet.ErrEventNotFound
}

func (s *walletStore) WalletEvents(offset, limit int) ([]wallet.Event, error) {
	evs := append([]wallet.Event(nil), s.events...)
	for i, j := 0, len(evs)-1; i < j; i, j = i+1, j-1 {
		evs[i], evs[j] = evs[j], evs[i]
	}
	sort.SliceStable(evs, func(i, j int) bool { return evs[i].MaturityHeight > evs[j].MaturityHeight })
	if offset > len(evs) {
		return nil, nil
	}
	end := offset + limit
	if end > len(evs) {
		end = len(evs)
	}
	return evs[offset:end], nil
}

func (s *walletStore) WalletEventCount() (uint64, error) { return uint64(len(s.events)), nil }

func (s *walletStore) AddBroadcastedSet(set wallet.BroadcastedSet) error {
	for _, x := range s.sets {
		if x.ID() == set.ID() {
			return nil
		}
	}
	s.sets = append(s.sets, set)
	return nil
}

func (s *walletStore) BroadcastedSets() ([]wallet.BroadcastedSet, error) {
	return append([]wallet.BroadcastedSet(nil), s.sets...), nil
}

func (s *walletStore) RemoveBroadcastedSet(set wallet.BroadcastedSet) error {
	for i, x := range s.sets {
		if x.ID() == set.ID() {
			s.sets = append(s.sets[:i:i], s.sets[i+1:]...)
			return nil
		}
	}
	return errors.New("broadcasted set not found")
}

// recSyncer records broadcasts.
type recSyncer struct {
	calls int
	yield func(string)
}

func (r *recSyncer) BroadcastV2TransactionSet(types.ChainIndex, []types.V2Transaction) error {
	if r.yield != nil {
		r.yield("syncer.Broadcast")
	}
	r.calls++
	return nil
}
