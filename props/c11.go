package props

import (
	"bytes"
	"context"
	"encoding/binary"
	"errors"
	"fmt"
	"go.sia.tech/coreutils/chain"
	"go.sia.tech/mux"
	"io"
	stdnet "net"
	"os"
	"strings"
	"sync"
	"time"

	"go.sia.tech/core/consensus"
	"go.sia.tech/core/gateway"
	"go.sia.tech/core/types"
	"go.sia.tech/coreutils/syncer"

	"verif/gen"
	"verif/sim"
	"verif/simdisk"
	"verif/simnet"
)

// treeCM is the chain "manager" of a Byzantine node: it serves one path of the
// generated tree - possibly containing an invalid block - and lies in the way
// configured before the run starts. No choices are drawn while it is in use.
type treeCM struct {
	mu    sync.Mutex
	path  []*gen.Node
	byID  map[types.BlockID]int
	lie   string
	alt   []*gen.Node // another branch, for mismatching answers
	badHd *types.BlockHeader
	calls map[string]int
	// wrongTxns: serve these transactions instead of a block's own
	wrongTxnsFor types.BlockID
	// extra blocks Block() knows about without their being on the served chain
	// (a valid block announced by outline must not spread through sync: its
	// header, relayed by every node that then adopts it, bounces between the
	// interconnected nodes that do not have the block yet - DESIGN.md 12.7)
	extra map[types.BlockID]*gen.Node
}

func newTreeCM(tip *gen.Node, lie string) *treeCM {
	c := &treeCM{path: tip.PathFromGenesis(), byID: map[types.BlockID]int{}, lie: lie, calls: map[string]int{}}
	for i, n := range c.path {
		c.byID[n.ID] = i
	}
	return c
}

func (c *treeCM) count(what string) {
	c.mu.Lock()
	c.calls[what]++
	c.mu.Unlock()
}

func (c *treeCM) stateOf(n *gen.Node) consensus.State {
	if n.Valid() {
		return n.L.State
	}
	return n.HState
}

func (c *treeCM) History() ([32]types.BlockID, error) {
	var h [32]types.BlockID
	tip := len(c.path) - 1
	for i := range h {
		off := i
		if off >= 10 {
			off = 7 + 1<<(i-8)
		}
		if off > tip {
			off = tip
		}
		h[i] = c.path[tip-off].ID
	}
	return h, nil
}

func (c *treeCM) BlocksForHistory(history []types.BlockID, max uint64) ([]types.Block, uint64, error) {
	c.count("BlocksForHistory")
	attach := 0
	for _, id := range history {
		if i, ok := c.byID[id]; ok {
			attach = i
			break
		}
	}
	rest := c.path[attach+1:]
	if uint64(len(rest)) > max {
		rest = rest[:max]
	}
	blocks := blocksOf(rest)
	switch c.lie {
	case "blocks-wrong-count":
		if len(blocks) > 1 {
			blocks = blocks[:len(blocks)-1]
		}
	case "blocks-mismatch":
		// blocks of another branch, as many as asked for
		for i := range blocks {
			if attach+1+i < len(c.alt) {
				blocks[i] = c.alt[attach+1+i].Block
			}
		}
	case "blocks-reordered":
		for i, j := 0, len(blocks)-1; i < j; i, j = i+1, j-1 {
			blocks[i], blocks[j] = blocks[j], blocks[i]
		}
	case "stall":
		time.Sleep(20 * time.Minute)
	case "blocks-too-many":
		if attach+1+len(blocks) < len(c.path) {
			blocks = append(blocks, c.path[attach+1+len(blocks)].Block)
		}
	}
	return blocks, uint64(len(c.path) - 1 - attach - len(rest)), nil
}

func (c *treeCM) Headers(index types.ChainIndex, max uint64) ([]types.BlockHeader, uint64, error) {
	c.count("Headers")
	i, ok := c.byID[index.ID]
	if !ok || c.path[i].Height != index.Height {
		return nil, 0, fmt.Errorf("index %v is not on our best chain", index)
	}
	rest := c.path[i+1:]
	if uint64(len(rest)) > max {
		rest = rest[:max]
	}
	hs := make([]types.BlockHeader, len(rest))
	for k, n := range rest {
		hs[k] = n.Block.Header()
	}
	switch c.lie {
	case "header-insufficient-work":
		if len(hs) > 0 && c.badHd != nil {
			hs[len(hs)/2] = *c.badHd
		}
	case "header-wrong-parent":
		if len(hs) > 1 {
			hs[len(hs)-1].ParentID = hs[0].ParentID
		}
	case "header-timestamp":
		if len(hs) > 0 {
			hs[len(hs)-1].Timestamp = c.path[0].Block.Timestamp.Add(-time.Hour)
		}
	case "headers-remaining-lie":
		return hs, 1 << 40, nil
	}
	return hs, uint64(len(c.path) - 1 - i - len(rest)), nil
}

func (c *treeCM) Block(id types.BlockID) (types.Block, bool) {
	c.count("Block")
	i, ok := c.byID[id]
	var b types.Block
	if x, isExtra := c.extra[id]; isExtra {
		b = x.Block
	} else if !ok {
		return types.Block{}, false
	} else {
		b = c.path[i].Block
	}
	if c.lie == "checkpoint-without-payouts" && b.V2 != nil {
		// the id of a v2 block does not cover its miner payouts
		b.MinerPayouts = nil
	}
	if c.wrongTxnsFor == id {
		// answer SendTransactions with transactions of another block, or with
		// none if no other block has any
		wb := b
		wb.Transactions = nil
		if wb.V2 != nil {
			v2 := *wb.V2
			v2.Transactions = nil
			wb.V2 = &v2
		}
		for _, n := range c.path {
			if n.ID != id && (len(n.Block.Transactions) > 0 || len(n.Block.V2Transactions()) > 0) {
				wb.Transactions = n.Block.Transactions
				if n.Block.V2 != nil && wb.V2 != nil {
					wb.V2.Transactions = n.Block.V2.Transactions
				}
				break
			}
		}
		return wb, true
	}
	return b, true
}

func (c *treeCM) State(id types.BlockID) (consensus.State, bool) {
	c.count("State")
	i, ok := c.byID[id]
	if !ok {
		return consensus.State{}, false
	}
	cs := c.stateOf(c.path[i])
	switch c.lie {
	case "bogus-checkpoint":
		cs.SiafundTaxRevenue = cs.SiafundTaxRevenue.Add(types.Siacoins(1))
		cs.Attestations += 3
	case "checkpoint-foundation-address":
		// what an attacker would want a bootstrapping node to believe
		cs.FoundationSubsidyAddress = types.Address{0xBA, 0xD0}
		cs.FoundationManagementAddress = types.Address{0xBA, 0xD1}
	case "checkpoint-state-of-other-block":
		if i > 0 {
			cs = c.stateOf(c.path[i-1])
			cs.Index = c.path[i].Index() // linked to the right block, contents of another
		}
	}
	return cs, true
}

func (c *treeCM) AddBlocks([]types.Block) error                               { return nil }
func (c *treeCM) AddValidatedV2Blocks([]types.Block, []consensus.State) error { return nil }
func (c *treeCM) Tip() types.ChainIndex                                       { return c.path[len(c.path)-1].Index() }
func (c *treeCM) TipState() consensus.State                                   { return c.stateOf(c.path[len(c.path)-1]) }
func (c *treeCM) PoolTransaction(types.TransactionID) (types.Transaction, bool) {
	return types.Transaction{}, false
}
func (c *treeCM) AddPoolTransactions([]types.Transaction) (bool, error) { return false, nil }
func (c *treeCM) V2PoolTransaction(types.TransactionID) (types.V2Transaction, bool) {
	return types.V2Transaction{}, false
}
func (c *treeCM) AddV2PoolTransactions(types.ChainIndex, []types.V2Transaction) (bool, error) {
	return false, errors.New("no pool")
}
func (c *treeCM) TransactionsForPartialBlock([]types.Hash256) ([]types.Transaction, []types.V2Transaction) {
	return nil, nil
}

var c11Lies = []string{"invalid-block-in-heavier-chain", "header-insufficient-work", "header-wrong-parent", "header-timestamp", "headers-remaining-lie", "blocks-wrong-count", "blocks-too-many", "blocks-mismatch", "blocks-reordered", "bogus-checkpoint", "checkpoint-foundation-address", "checkpoint-state-of-other-block", "checkpoint-without-payouts", "stall", "garbage-nodes", "honest"}

var c11Announcements = []string{"none", "header-insufficient-work", "outline-invalid-block", "outline-wrong-missing-transactions", "empty-transaction-set", "transaction-set-unknown-basis", "header-unknown-parent", "outline-insufficient-work-off-tip", "outline-overflowing-fees"}

func runC11(e *sim.Env) {
	now := time.Now()
	net := gen.NewNet(e, now, gen.NetOpts{MaxHeight: 300})
	tree := gen.NewTree(net)
	e.Shape("net", net.Regime)
	bo := gen.BlockOpts{Mix: gen.FullMix, MaxTx: e.Range(0, 3), OrderSafe: true, Now: now, Strict: genStrict}
	tree.Grow(e, gen.GrowOpts{Blocks: e.Range(8, 30), Block: bo, MinerPool: []types.Address{types.VoidAddress, net.Actors[0].Addr}})
	honestTip := tree.Heaviest()
	// the attacker's fork: a corrupted twin somewhere on (or next to) the honest chain with a heavier header-valid chain on top
	var attackTip *gen.Node
	for try := 0; try < 12 && attackTip == nil; try++ {
		victimBlock := honestTip.Ancestor(uint64(e.Range(1, int(honestTip.Height))))
		kind := []string{"sig", "dup_txn", "overspend", "commitment", "payout", "missing_input", "v2height", "weight"}[e.Intn(8)]
		if bad := tree.Corrupt(e, victimBlock, kind, now); bad != nil && !bad.OrphanInvalid {
			x := bad
			for i := 0; i < int(honestTip.Height-bad.Height)+e.Range(2, 6); i++ {
				x = tree.ExtendHeaderOnly(e, x, gen.BlockOpts{Now: now, Miner: types.VoidAddress, MinGap: true})
			}
			attackTip = x
			e.Probe("attack_chain_" + kind)
		}
	}
	// the honest chain must win by a margin against every other valid block
	dominant := tree.MakeDominant(e, bo)

	lie := c11Lies[e.Intn(len(c11Lies))]
	ann := c11Announcements[e.Pick(3, 1, 1, 1, 1, 1, 1, 1, 1)]
	if attackTip == nil && lie == "invalid-block-in-heavier-chain" {
		lie = "blocks-mismatch"
	}
	e.Shape("lie", lie, ann)
	e.Logf("lie=%s announcement=%s regime=%s", lie, ann, net.Regime)
	if os.Getenv("VERIF_DEBUG") != "" {
		fmt.Fprintf(os.Stderr, "C11 lie=%s ann=%s regime=%s\n", lie, ann, net.Regime)
	}

	nw := simnet.New(simnet.Config{Seed: e.Seed, MinLatency: time.Duration(e.Range(1, 30)) * time.Millisecond, Jitter: time.Duration(e.Range(0, 200)) * time.Millisecond})
	e.OnCleanup(nw.Shutdown)
	nodeOpts := func() []syncer.Option {
		return []syncer.Option{
			syncer.WithSyncInterval(time.Duration(e.Range(200, 3000)) * time.Millisecond),
			syncer.WithPeerDiscoveryInterval(time.Duration(e.Range(500, 5000)) * time.Millisecond),
			syncer.WithSendBlocksTimeout(time.Duration(e.Range(20, 120)) * time.Second),
			syncer.WithBanDuration(time.Hour),
		}
	}
	// victim
	vs := newChainSUT(e, net, simdisk.New())
	vcm := &stallingCM{ChainManager: vs.cm}
	victim := newNetNode(e, "C11", net, nw, 1, vcm, vs, nodeOpts()...)
	e.OnCleanup(victim.close)
	start := dominant.Ancestor(uint64(e.Range(0, int(dominant.Height))))
	feed(e, "C11", victim, start)
	// honest peers
	var honest []*netNode
	for i, k := 0, e.Range(1, 3); i < k; i++ {
		time.Sleep(time.Duration(e.Range(1, 500)) * time.Millisecond)
		hs := newChainSUT(e, net, simdisk.New())
		h := newNetNode(e, "C11", net, nw, 10+i, nil, hs, nodeOpts()...)
		hh := h
		e.OnCleanup(hh.close)
		target := dominant
		if i > 0 && e.Chance(1, 2) {
			target = dominant.Ancestor(uint64(e.Range(0, int(dominant.Height))))
		}
		feed(e, "C11", h, target)
		honest = append(honest, h)
	}
	// Byzantine peers
	var byz []*netNode
	var byzCMs []*treeCM
	for i, k := 0, e.Range(1, 2); i < k; i++ {
		tip := dominant
		myLie := lie
		if i > 0 {
			myLie = c11Lies[e.Intn(len(c11Lies))]
		}
		if myLie == "invalid-block-in-heavier-chain" && attackTip != nil {
			tip = attackTip
		}
		cm := newTreeCM(tip, myLie)
		cm.alt = tree.Nodes[e.Intn(len(tree.Nodes))].PathFromGenesis()
		if myLie == "header-insufficient-work" {
			// a header of the chain re-mined to miss the target
			n := tip.Ancestor(uint64(e.Range(1, int(tip.Height))))
			h := n.Block.Header()
			ps := cm.stateOf(n.Parent)
			for tries := 0; tries < 1<<12; tries++ {
				h.Nonce += ps.NonceFactor()
				if h.ID().CmpWork(ps.PoWTarget()) < 0 {
					cm.badHd = &h
					break
				}
			}
		}
		b := newNetNode(e, "C11", net, nw, 100+i, cm, nil, nodeOpts()...)
		bb := b
		e.OnCleanup(bb.close)
		if myLie == "garbage-nodes" {
			for _, a := range []string{strings.Repeat("a", 300) + ":9981", "10.9.9.9:0", "10.9.9.9:99999", "::::", "", "host-without-port", "10.9.9.8:9981"} {
				b.ps.AddPeer(a)
			}
		}
		byz = append(byz, b)
		byzCMs = append(byzCMs, cm)
		e.Fault("peer-" + myLie)
	}
	// connections: everybody knows the victim
	connect := func(a, b *netNode) {
		a.ps.AddPeer(b.addr)
		ctx, cancel := context.WithTimeout(context.Background(), 5*time.Second)
		_, err := a.sy.Connect(ctx, b.addr)
		cancel()
		e.Logf("connect %s -> %s: %v", a.name, b.name, err)
		time.Sleep(time.Duration(e.Range(0, 800)) * time.Millisecond)
	}
	order := e.Perm(len(byz) + len(honest))
	for _, i := range order {
		var p *netNode
		if i < len(byz) {
			p = byz[i]
		} else {
			p = honest[i-len(byz)]
		}
		if e.Chance(1, 2) {
			connect(p, victim)
		} else {
			connect(victim, p)
		}
	}
	victimWork := vs.cm.TipState().TotalWork
	overflowSent := false
	poll := func() {
		n := auditNode(e, "C11", victim, tree)
		if w := n.L.State.TotalWork; w.Cmp(victimWork) < 0 {
			e.Violationf("C11.work-monotone", "work-decreased", "the victim's total work decreased (tip %s)", n.Describe())
		} else {
			victimWork = w
		}
		for _, p := range victim.panics() {
			if overflowSent && strings.Contains(p, "overflow") {
				// the announced outline's fees overflow the block reward: the
				// handler panics while completing it and the syncer recovers -
				// nothing changes, nobody crashes (what matters here)
				e.Probes["overflow_panic_recovered"] = 1
				continue
			}
			e.Violationf("C11.panic", "rpc-handler-panic", "the victim recovered a panic in an RPC handler: %s", p)
		}
	}
	// let the Byzantine answers play out
	for i := 0; i < 6; i++ {
		time.Sleep(time.Duration(e.Range(1, 6)) * time.Second)
		poll()
	}
	// a peer that does not use the typed API at all
	if e.Chance(1, 3) {
		c11RawPeer(e, net, nw, victim, tree.ByID[vs.cm.Tip().ID])
		poll()
	}
	// active announcements once the victim has (probably) caught up
	vtip := tree.ByID[vs.cm.Tip().ID]
	expectBan := ""
	if ann != "none" && len(byz) > 0 {
		b := byz[0]
		e.Fault("announce-" + ann)
		cbo := bo
		cbo.MaxTx = e.Range(2, 4)
		child := tree.Extend(e, vtip, cbo)
		// the announcement goes straight to the victim over the Byzantine node's
		// own connection (its other peers hear it too); an expectation is only
		// recorded when that connection was alive and the message was written
		// outlines are only acted upon when they attach to the receiver's tip: the
		// ban expectation needs a victim whose tip can no longer move
		settled := vtip == dominant
		if !settled {
			e.Probe("victim_not_settled_at_announcement")
		}
		sent := false
		// 1 announcement in 2: the sender hangs up right after sending, and the
		// victim is slow to look things up (so that it is still validating when
		// the connection goes away); misbehaviour stays misbehaviour
		hangUp := e.Chance(1, 2)
		if hangUp {
			vcm.stateStall.Store(int64(time.Duration(e.Range(1500, 3000)) * time.Millisecond))
			e.Fault("sender-hangs-up-after-announcement")
		}
		announce := func(fn func(p *syncer.Peer) error) bool {
			ok := false
			if e.Verbose {
				for _, p := range victim.sy.Peers() {
					e.Logf("victim peer %s inbound=%v err=%v synced=%v", p.Addr(), p.Inbound, p.Err(), p.Synced())
				}
			}
			for _, p := range b.sy.Peers() {
				// only to the victim: a second copy relayed by another node could
				// arrive first, and a block the victim has already seen (and found
				// invalid) is dropped as "already seen" without a second report
				if !strings.HasPrefix(p.Addr(), victim.host+":") {
					continue
				}
				err := fn(p)
				e.Logf("announce %s to %s (inbound=%v): err=%v perr=%v", ann, p.Addr(), p.Inbound, err, p.Err())
				if err == nil && p.Err() == nil {
					ok = true
				}
				if hangUp {
					// (not before the message has arrived: closing a connection
					// discards what is still on its way)
					time.Sleep(time.Duration(e.Range(400, 700)) * time.Millisecond)
					p.Close()
				}
			}
			if !ok {
				e.Probe("announcement_not_delivered")
			}
			sent = ok
			return ok
		}
		switch ann {
		case "header-insufficient-work":
			h := child.Block.Header()
			ps := vtip.L.State
			for tries := 0; tries < 1<<12 && h.ID().CmpWork(ps.PoWTarget()) >= 0; tries++ {
				h.Nonce += ps.NonceFactor()
			}
			// at the generated networks' lowest difficulty nearly every id meets the
			// target; a header that does meet it is not misbehaviour (and, its block
			// withheld, bounces between interconnected nodes until the tip moves -
			// see DESIGN.md, observations), so it is not sent
			if child.Block.V2 != nil && h.ID().CmpWork(ps.PoWTarget()) < 0 {
				if announce(func(p *syncer.Peer) error { return p.RelayV2Header(h, 5*time.Second) }) {
					expectBan = "insufficient work"
				}
			}
		case "outline-insufficient-work-off-tip":
			// a block on the parent of the victim's tip (known, not the tip)
			// whose id misses that parent's target
			if vtip.Parent != nil && child.Block.V2 != nil {
				sib := tree.Extend(e, vtip.Parent, cbo)
				ps := vtip.Parent.L.State
				if sib.Block.V2 != nil {
					ob := gateway.OutlineBlock(sib.Block, nil, nil)
					for tries := 0; tries < 1<<12 && ob.ID(ps).CmpWork(ps.PoWTarget()) >= 0; tries++ {
						ob.Nonce += ps.NonceFactor()
					}
					if ob.ID(ps).CmpWork(ps.PoWTarget()) < 0 {
						if announce(func(p *syncer.Peer) error { return p.RelayV2BlockOutline(ob, 5*time.Second) }) {
							expectBan = "insufficient work"
						}
					}
				}
			}
		case "outline-overflowing-fees":
			// a block on the victim's tip carrying a transaction whose fee alone
			// overflows the miner payout: completing the outline must not take
			// the node down
			if child.Block.V2 != nil {
				b := child.Block
				v2 := *b.V2
				v2.Transactions = append(append([]types.V2Transaction(nil), v2.Transactions...), types.V2Transaction{MinerFee: types.MaxCurrency})
				b.V2 = &v2
				ob := gateway.OutlineBlock(b, nil, nil)
				overflowSent = true
				announce(func(p *syncer.Peer) error { return p.RelayV2BlockOutline(ob, 5*time.Second) })
			}
		case "header-unknown-parent":
			h := child.Block.Header()
			copy(h.ParentID[:], e.Bytes(32))
			announce(func(p *syncer.Peer) error { return p.RelayV2Header(h, 5*time.Second) })
		case "outline-invalid-block":
			// an outline carries neither commitment nor payout values (the receiver
			// recomputes both), so only corruptions of the transactions survive it
			if bad := tree.Corrupt(e, child, []string{"sig", "overspend", "missing_input", "dup_txn"}[e.Intn(4)], now); bad != nil && !bad.OrphanInvalid && bad.Block.V2 != nil {
				if ob := gateway.OutlineBlock(bad.Block, nil, nil); ob.ID(vtip.L.State) == bad.ID {
					byzCMs[0].byID[bad.ID] = len(byzCMs[0].path)
					byzCMs[0].path = append(byzCMs[0].path, bad)
					if announce(func(p *syncer.Peer) error { return p.RelayV2BlockOutline(ob, 5*time.Second) }) && settled {
						expectBan = "invalid"
						e.Probe("announced_invalid_outline_" + bad.Corrupt)
					}
				}
			}
		case "outline-wrong-missing-transactions":
			if child.Block.V2 != nil && len(child.Block.V2Transactions())+len(child.Block.Transactions) > 0 {
				cm := byzCMs[0]
				cm.mu.Lock()
				cm.extra = map[types.BlockID]*gen.Node{child.ID: child}
				cm.wrongTxnsFor = child.ID
				cm.mu.Unlock()
				ob := gateway.OutlineBlock(child.Block, child.Block.Transactions, child.Block.V2Transactions())
				// (a sender that has hung up cannot be asked for the missing
				// transactions, so it never gets to answer wrongly)
				if announce(func(p *syncer.Peer) error { return p.RelayV2BlockOutline(ob, 5*time.Second) }) && settled && !hangUp {
					expectBan = "wrong missing transactions"
				}
			}
		case "empty-transaction-set":
			// an empty set is never relayed by an honest implementation; send it raw
			if announce(func(p *syncer.Peer) error { return p.RelayV2TransactionSet(vtip.Index(), nil, 5*time.Second) }) {
				expectBan = "empty transaction set"
			}
		case "transaction-set-unknown-basis":
			var idx types.ChainIndex
			copy(idx.ID[:], e.Bytes(32))
			announce(func(p *syncer.Peer) error {
				return p.RelayV2TransactionSet(idx, []types.V2Transaction{{ArbitraryData: []byte("x")}}, 5*time.Second)
			})
		}
		_ = sent
		time.Sleep(6 * time.Second)
		vcm.stateStall.Store(0)
		poll()
	}
	c11Checkpoint(e, net, nw, tree, dominant, honest, byz, byzCMs, nodeOpts)
	// faults stop: Byzantine peers go away; the victim must end on the heaviest honest chain
	for _, b := range byz {
		b.close()
	}
	// if the announced child was valid and adopted, the honest goal moved
	goal := dominant
	deadline := time.Now().Add(40 * time.Minute)
	converged := false
	for time.Now().Before(deadline) {
		time.Sleep(5 * time.Second)
		poll()
		t := tree.ByID[vs.cm.Tip().ID]
		if t == goal || (goal.IsAncestorOf(t) && t.Valid()) {
			converged = true
			break
		}
	}
	if !converged {
		e.Violationf("C11.syncs-to-honest-chain", "stalled:"+lie+":"+ann, "40 simulated minutes after the Byzantine peers left, the victim sits on %s instead of the heaviest honest chain %s (lie %s, announcement %s, %d honest peers, victim peers %d, bans %v)", tree.ByID[vs.cm.Tip().ID].Describe(), goal.Describe(), lie, ann, len(honest), len(victim.sy.Peers()), victim.ps.banList())
	}
	// provable misbehaviour is reported for banning
	bans := victim.ps.banList()
	banned := func(host string) bool {
		for _, b := range bans {
			if strings.HasPrefix(b.addr, host) {
				return true
			}
		}
		return false
	}
	if expectBan != "" {
		e.Probe("ban_expected_" + ann)
	}
	if expectBan != "" && !banned(byz[0].host) {
		if e.Verbose {
			for _, l := range victim.lastLogs(60) {
				e.Logf("LOG victim: %.400s", l)
			}
			for _, l := range byz[0].lastLogs(400) {
				if !strings.Contains(l, "ignoring invalid peer") {
					e.Logf("LOG byz0: %.400s", l)
				}
			}
			if len(byz) > 1 {
				for _, l := range byz[1].lastLogs(60) {
					e.Logf("LOG byz1: %.400s", l)
				}
			}
		}
		e.Violationf("C11.misbehaviour-banned", "announce:"+ann, "a peer announced %s (provable misbehaviour: %s) but was not reported to the peer store for banning; bans: %v", ann, expectBan, bans)
	}
	if lie == "invalid-block-in-heavier-chain" && byzCMs[0].calls["BlocksForHistory"] > 0 && start.Height < attackTip.Height {
		// only when the victim actually fetched the attacker's blocks
		servedInvalid := false
		for _, n := range byzCMs[0].path {
			if n.Corrupt != "" && n.Height > start.Height {
				servedInvalid = true
			}
		}
		if servedInvalid && !banned(byz[0].host) {
			e.Probe("invalid_chain_served_without_ban")
		}
	}
	for _, h := range honest {
		if banned(h.host) {
			e.Violationf("C11.honest-not-banned", "honest-banned", "the victim banned the honest peer %s: %v", h.name, bans)
		}
	}
	for _, cm := range byzCMs {
		if cm.calls["Block"] > 0 {
			e.Probe("byz_served_checkpoint_or_transactions")
		}
		if cm.calls["BlocksForHistory"] > 0 {
			e.Probe("byz_served_blocks")
		}
		if cm.calls["Headers"] > 0 {
			e.Probe("byz_served_headers")
		}
	}
	e.Nontrivial = true
	e.Probe("victim_converged")
}

// c11RawPeer is a peer below the typed API: it completes the handshake by hand
// (or spoils it) and then writes raw bytes into mux streams - unknown RPC ids,
// random bytes, valid encodings cut at a drawn offset, absurd length prefixes,
// an id with nothing after it. None of this may crash or wedge the victim.
func c11RawPeer(e *sim.Env, net *gen.Net, nw *simnet.Net, victim *netNode, tip *gen.Node) {
	e.Fault("raw-peer")
	d := &simnet.Dialer{N: nw, Host: "10.8.0.1"}
	v1 := func(fn func(enc *types.Encoder)) []byte {
		var buf bytes.Buffer
		enc := types.NewEncoder(&buf)
		enc.WriteUint64(0)
		fn(enc)
		enc.Flush()
		b := buf.Bytes()
		binary.LittleEndian.PutUint64(b, uint64(len(b)-8))
		return b
	}
	readV1 := func(c stdnet.Conn) ([]byte, error) {
		var l [8]byte
		if _, err := io.ReadFull(c, l[:]); err != nil {
			return nil, err
		}
		n := binary.LittleEndian.Uint64(l[:])
		if n > 4096 {
			return nil, errors.New("oversized")
		}
		b := make([]byte, n)
		_, err := io.ReadFull(c, b)
		return b, err
	}
	dial := func() stdnet.Conn {
		ctx, cancel := context.WithTimeout(context.Background(), 5*time.Second)
		defer cancel()
		c, err := d.DialContext(ctx, "tcp", victim.addr)
		if err != nil {
			return nil
		}
		c.SetDeadline(time.Now().Add(20 * time.Second))
		return c
	}
	// spoiled handshakes
	for i, n := 0, e.Range(0, 3); i < n; i++ {
		c := dial()
		if c == nil {
			continue
		}
		switch e.Intn(5) {
		case 0:
			c.Write(e.Bytes(e.Range(1, 300)))
		case 1: // a length prefix promising far more than follows
			var l [8]byte
			binary.LittleEndian.PutUint64(l[:], 1<<40)
			c.Write(l[:])
			c.Write(e.Bytes(20))
		case 2: // version, then a header with an absurd address
			c.Write(v1(func(enc *types.Encoder) { enc.WriteString("2.0.0") }))
			readV1(c)
			c.Write(v1(func(enc *types.Encoder) {
				net.Genesis.ID().EncodeTo(enc)
				enc.Write(e.Bytes(8))
				enc.WriteString(strings.Repeat("x", e.Range(0, 3000)))
			}))
		case 3: // version only, then silence
			c.Write(v1(func(enc *types.Encoder) { enc.WriteString(strings.Repeat("9", e.Range(0, 200))) }))
			time.Sleep(time.Duration(e.Range(1, 8)) * time.Second)
		case 4:
		}
		c.Close()
		e.Probe("raw_spoiled_handshake")
	}
	// a proper handshake, then raw streams
	c := dial()
	if c == nil {
		return
	}
	defer c.Close()
	c.Write(v1(func(enc *types.Encoder) { enc.WriteString("2.0.0") }))
	if _, err := readV1(c); err != nil {
		return
	}
	c.Write(v1(func(enc *types.Encoder) {
		net.Genesis.ID().EncodeTo(enc)
		enc.Write([]byte("rawpeer1"))
		enc.WriteString("10.8.0.1:9981")
	}))
	if acc, err := readV1(c); err != nil || !bytes.Contains(acc, []byte("accept")) {
		return
	}
	if _, err := readV1(c); err != nil {
		return
	}
	c.Write(v1(func(enc *types.Encoder) { enc.WriteString("accept") }))
	c.SetDeadline(time.Time{})
	m, err := mux.DialAnonymous(c)
	if err != nil {
		e.Logf("raw peer: mux: %v", err)
		return
	}
	defer m.Close()
	ids := []string{"ShareNodes", "DiscoverIP", "SendHeaders", "SendV2Blocks", "SendTransactions", "SendCheckpoint", "RelayV2Header", "RelayV2Outline", "RelayV2Txns"}
	valid := func(id string) []byte {
		var buf bytes.Buffer
		enc := types.NewEncoder(&buf)
		switch id {
		case "SendHeaders":
			tip.Index().EncodeTo(enc)
			enc.WriteUint64(10)
		case "SendV2Blocks":
			enc.WriteUint64(2)
			tip.ID.EncodeTo(enc)
			net.Genesis.ID().EncodeTo(enc)
			enc.WriteUint64(5)
		case "SendTransactions":
			tip.Index().EncodeTo(enc)
			enc.WriteUint64(1)
			types.Hash256{1}.EncodeTo(enc)
		case "SendCheckpoint":
			tip.Index().EncodeTo(enc)
		case "RelayV2Header":
			h := tip.Block.Header()
			h.EncodeTo(enc)
		case "RelayV2Outline":
			enc.WriteUint64(tip.Height + 1)
			tip.ID.EncodeTo(enc)
			enc.WriteUint64(0)
			enc.WriteTime(tip.Block.Timestamp)
			types.VoidAddress.EncodeTo(enc)
			enc.WriteUint64(0)
		case "RelayV2Txns":
			tip.Index().EncodeTo(enc)
			enc.WriteUint64(1)
			types.V2Transaction{ArbitraryData: []byte("x")}.EncodeTo(enc)
		}
		enc.Flush()
		return buf.Bytes()
	}
	for i, n := 0, e.Range(3, 25); i < n; i++ {
		st := m.DialStream()
		st.SetDeadline(time.Now().Add(10 * time.Second))
		wrote, dead := false, false
		write := func(b []byte) {
			if len(b) == 0 || dead {
				return
			}
			if _, err := st.Write(b); err != nil {
				dead = true // the victim hung up on us: nothing more to send
				return
			}
			wrote = true
		}
		id := ids[e.Intn(len(ids))]
		spec := types.NewSpecifier(id)
		kind := e.Intn(7)
		switch kind {
		case 0: // unknown id
			copy(spec[:], e.Bytes(16))
			write(spec[:])
			write(e.Bytes(e.Range(0, 200)))
		case 1: // id, then nothing until the victim gives up
			write(spec[:])
			if e.Chance(1, 3) {
				time.Sleep(time.Duration(e.Range(1, 20)) * time.Second)
			}
		case 2: // id + random bytes
			write(spec[:])
			write(e.Bytes(e.Range(1, 4000)))
		case 3: // valid request cut short
			write(spec[:])
			if v := valid(id); len(v) > 0 {
				write(v[:e.Intn(len(v))])
			}
		case 4: // a slice length prefix far beyond the stream
			write(spec[:])
			var buf bytes.Buffer
			enc := types.NewEncoder(&buf)
			if id == "SendTransactions" || id == "RelayV2Txns" || id == "SendHeaders" || id == "SendCheckpoint" {
				tip.Index().EncodeTo(enc)
			}
			enc.WriteUint64(uint64(1) << uint(e.Range(20, 62)))
			enc.Flush()
			write(buf.Bytes())
			write(e.Bytes(e.Range(0, 100)))
		case 5: // valid request followed by trailing garbage
			write(spec[:])
			write(valid(id))
			write(e.Bytes(e.Range(1, 500)))
		case 6: // part of the id only
			write(spec[:e.Range(1, 15)])
		}
		if e.Chance(1, 2) && wrote && !dead {
			// read whatever comes back, up to a bound
			io.CopyN(io.Discard, st, 1<<16)
		}
		st.Close()
		e.Probes["raw_streams"]++
		if dead {
			e.Probe("raw_peer_disconnected")
			break
		}
	}
	time.Sleep(2 * time.Second)
}

// c11Checkpoint is the bootstrap path: a fresh node asks peers for a
// checkpoint (block + the state before it), starts a store from what a peer
// answered, and syncs the rest. Whatever a Byzantine peer answers, an
// accepted checkpoint is the real one.
func c11Checkpoint(e *sim.Env, net *gen.Net, nw *simnet.Net, tree *gen.Tree, dominant *gen.Node, honest, byz []*netNode, byzCMs []*treeCM, nodeOpts func() []syncer.Option) {
	// a v2 block above the require height on the honest chain
	lo := net.Require() + 1
	if dominant.Height <= lo+1 {
		return
	}
	cp := dominant.Ancestor(uint64(e.Range(int(lo), int(dominant.Height)-1)))
	if cp.Block.V2 == nil || !cp.Valid() || cp.Parent == nil {
		return
	}
	e.Fault("checkpoint-bootstrap")
	boot := newNetNodeAt(e, net, nw, 300, "10.7.0.1", false, newTreeCM(tree.Genesis, "honest"), nil)
	defer boot.close()
	var accepted *consensus.State
	var acceptedBlock types.Block
	ask := func(n *netNode, byzantine bool, lie string) {
		ctx, cancel := context.WithTimeout(context.Background(), 5*time.Second)
		p, err := boot.sy.Connect(ctx, n.addr)
		cancel()
		if err != nil {
			e.Logf("checkpoint: connect to %s: %v", n.name, err)
			return
		}
		defer p.Close()
		var cs consensus.State
		var b types.Block
		var cerr error
		e.Guard("C11.panic", "SendCheckpoint", func() { cs, b, cerr = p.SendCheckpoint(cp.Index(), net.Network, 30*time.Second) })
		e.Logf("checkpoint %v from %s (byzantine=%v lie=%s): err=%v", cp.Index(), n.name, byzantine, lie, cerr)
		if cerr != nil {
			if !byzantine {
				e.Violationf("C11.checkpoint", "honest-refused", "SendCheckpoint(%v) from the honest peer %s failed: %v", cp.Index(), n.name, cerr)
			}
			e.Probe("checkpoint_rejected")
			return
		}
		cs.Network = nil
		want := cp.Parent.L.State
		want.Network = nil
		if b.ID() != cp.ID || !bytes.Equal(gen.Enc(types.V2Block(b)), gen.Enc(types.V2Block(cp.Block))) {
			e.Violationf("C11.checkpoint", "wrong-block:"+lie, "SendCheckpoint(%v) accepted a block that is not the requested one (peer lie: %s)", cp.Index(), lie)
		}
		if !bytes.Equal(gen.StateBytes(cs), gen.StateBytes(want)) {
			e.Violationf("C11.checkpoint", "forged-state:"+lie, "SendCheckpoint(%v) accepted a state that is not the state before that block (peer lie: %s): %s", cp.Index(), lie, stateDiff(cs, want))
		}
		e.Probe("checkpoint_accepted")
		cs.Network = net.Network
		accepted, acceptedBlock = &cs, b
	}
	for i, b := range byz {
		ask(b, true, byzCMs[i].lie)
	}
	ask(honest[0], false, "honest")
	if accepted == nil {
		return
	}
	// start a node from the accepted checkpoint and let it sync the rest
	var dbs *chain.DBStore
	var tipState consensus.State
	var err error
	disk := simdisk.New()
	e.Guard("C11.panic", "NewDBStoreAtCheckpoint", func() { dbs, tipState, err = chain.NewDBStoreAtCheckpoint(disk, *accepted, acceptedBlock, nil) })
	if err != nil {
		e.Violationf("C11.checkpoint", "store-refused", "NewDBStoreAtCheckpoint refused a genuine checkpoint %v: %v", cp.Index(), err)
	}
	if tipState.Index != cp.Index() || !bytes.Equal(gen.StateBytes(tipState), gen.StateBytes(cp.L.State)) {
		e.Violationf("C11.checkpoint", "store-state", "a store started at checkpoint %v reports tip %v / a state that differs from the reference: %s", cp.Index(), tipState.Index, stateDiff(tipState, cp.L.State))
	}
	rs := &recStore{DBStore: dbs}
	cs := &chainSUT{net: net, db: disk, disk: disk, store: rs, cm: chain.NewManager(rs, tipState)}
	// its only peer is the honest node it is given (no discovery): what it
	// relays after syncing then goes nowhere else
	node := newNetNodeAt(e, net, nw, 301, "10.7.0.2", true, nil, cs, append(nodeOpts(), syncer.WithPeerDiscoveryInterval(3*time.Hour), syncer.WithSyncInterval(time.Duration(e.Range(100, 300))*time.Millisecond))...)
	defer node.close()
	node.ps.AddPeer(honest[0].addr)
	ctx, cancel := context.WithTimeout(context.Background(), 5*time.Second)
	node.sy.Connect(ctx, honest[0].addr)
	cancel()
	redialWhenAlone(e, node, honest[0].addr)
	deadline := time.Now().Add(20 * time.Minute)
	for time.Now().Before(deadline) {
		time.Sleep(3 * time.Second)
		ts := node.s.cm.TipState()
		t, ok := tree.ByID[ts.Index.ID]
		if !ok || !t.Valid() {
			e.Violationf("C11.node-valid", "checkpoint-node-tip", "the checkpoint-bootstrapped node reports tip %v which is not a valid block of the generated tree", ts.Index)
		}
		if !bytes.Equal(gen.StateBytes(ts), gen.StateBytes(t.L.State)) {
			e.Violationf("C11.node-valid", "checkpoint-node-state", "the checkpoint-bootstrapped node's tip state differs from independent replay at %s: %s", t.Describe(), stateDiff(ts, t.L.State))
		}
		for h := cp.Height; h <= t.Height; h++ {
			if idx, ok := node.s.cm.BestIndex(h); !ok || idx != t.Ancestor(h).Index() {
				e.Violationf("C11.node-valid", "checkpoint-node-index", "the checkpoint-bootstrapped node: BestIndex(%d)=%v (ok=%v), want %v", h, idx, ok, t.Ancestor(h).Index())
			}
		}
		if t == dominant || dominant.IsAncestorOf(t) {
			e.Probe("checkpoint_node_synced")
			return
		}
	}
	if e.Verbose {
		for _, l := range node.lastLogs(4000) {
			e.Logf("LOG cpnode: %.400s", l)
		}
		for _, l := range honest[0].lastLogs(25) {
			e.Logf("LOG honest0: %.400s", l)
		}
		var ps []string
		for _, p := range node.sy.Peers() {
			ps = append(ps, fmt.Sprintf("%s synced=%v err=%v", p.Addr(), p.Synced(), p.Err()))
		}
		e.Logf("cpnode peers: %v bans=%v; honest0 bans=%v", ps, node.ps.banList(), honest[0].ps.banList())
	}
	e.Violationf("C11.syncs-to-honest-chain", "checkpoint-node-stalled", "20 simulated minutes after starting from checkpoint %v with an honest peer the node sits on %v instead of %s", cp.Index(), node.s.cm.Tip(), dominant.Describe())
}

var _ = sim.NewEnv

func init() {
	register(&Prop{
		ID: "C11", Run: runC11, Race: true, RunTimeout: 20, Quick: 1500, Thorough: 40000, Level: "exploration",
		Rule:        "one run = a victim node (real syncer + gateway + mux + manager) started on a drawn ancestor of the honest chain, 1-3 honest real nodes, and 1-2 Byzantine nodes: real syncers whose ChainManager is a harness object serving a chosen path of the generated tree (optionally a heavier header-valid chain with a single-field-invalid block in the middle) and lying in one drawn way {insufficient-work header, wrong parent, bad timestamp, wrong remaining count, fewer / more / other-branch / reordered blocks, tampered checkpoint state (counters, foundation addresses, state of another block), a checkpoint block stripped of its miner payouts, stalling past the timeout, garbage node addresses, honest}; in 1 run in 3 a raw peer that spoils handshakes and writes raw bytes into mux streams (unknown ids, random bytes, truncated encodings, absurd length prefixes, trailing garbage, silence); after the victim has synced, one drawn announcement sent by the first Byzantine node straight to the victim {header with insufficient work, header with unknown parent, outline of an invalid block on the victim's tip, outline whose missing transactions are answered with other transactions, empty transaction set, transaction set with unknown basis, outline without sufficient work on the parent of the victim's tip, outline whose fees overflow the miner payout}, in half of the cases with the sender hanging up right after sending while the victim is slow to look states up; oracles at every poll: C01 audit of the victim, total work never decreases, no recovered handler panic, no process death; 40 simulated minutes after the Byzantine peers left the victim is on the heaviest honest chain; provable misbehaviour (insufficient-work header or outline, invalid outline block, wrong missing transactions, empty set) is reported to PeerStore.Ban and honest peers are not; distinct = (regime, lie, announcement); all runs non-trivial",
		Real:        []string{"victim and honest nodes: syncer.Syncer, gateway, mux, chain.Manager, chain.DBStore", "Byzantine nodes: real syncer / gateway / mux (well-formed encodings) over a lying ChainManager"},
		Stub:        []string{"network: simnet", "peer store: harness peerStore with real bans", "disk: simdisk.DB", "Byzantine chain manager: harness treeCM"},
		Assumptions: []string{"ban expectations only for misbehaviour the code itself calls ban-worthy"},
	})
}
