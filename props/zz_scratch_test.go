package props

import (
	"testing"
	"testing/synctest"
	"time"

	"go.sia.tech/core/types"
	"go.sia.tech/coreutils/chain"
	"verif/gen"
	"verif/sim"
	"verif/simdisk"
)

func TestScratchCacheDB(t *testing.T) {
	synctest.Test(t, func(t *testing.T) {
		e := sim.NewEnv("C03", 1)
		rec := sim.Execute(e, func(e *sim.Env) {
			now := time.Now()
			net := gen.NewNet(e, now, gen.NetOpts{MaxHeight: 60})
			tree := gen.NewTree(net)
			disk := simdisk.New()
			db := chain.NewCacheDB(disk)
			s := newChainSUTOn(e, net, db)
			tip := tree.Genesis
			for i := 0; i < 12; i++ {
				tip = tree.Extend(e, tip, gen.BlockOpts{Mix: gen.FullMix, MaxTx: 3, OrderSafe: true, Now: now, Strict: genStrict})
				time.Sleep(6 * time.Second)
				if err := s.cm.AddBlocks([]types.Block{tip.Block}); err != nil {
					t.Logf("AddBlocks: %v", err)
				}
				for h := uint64(0); h <= tip.Height; h++ {
					if _, ok := s.cm.BestIndex(h); !ok {
						t.Errorf("after block %d: BestIndex(%d) missing", tip.Height, h)
					}
				}
			}
		})
		t.Log(rec.Violation)
	})
}
