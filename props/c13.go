package props

import (
	"bytes"
	"fmt"
	"time"

	"go.sia.tech/core/consensus"
	"go.sia.tech/core/types"

	"verif/gen"
	"verif/sim"
	"verif/simdisk"
)

// dagSet builds k v2 transactions on top of l forming a dependency DAG:
// every transaction spends 1-2 outputs, each either confirmed or created by
// an earlier transaction of the set, in a drawn input order.
func dagSet(e *sim.Env, l *gen.Ledger, k int) []types.V2Transaction {
	tb := gen.NewTxBuilder(e, l)
	var avail []types.SiacoinElement // unspent ephemeral outputs
	var set []types.V2Transaction
	for i := 0; i < k; i++ {
		var txn types.V2Transaction
		nIn := e.Range(1, 2)
		total := types.ZeroCurrency
		var owner *gen.Actor
		for j := 0; j < nIn; j++ {
			if len(avail) > 0 && (i > 0 && e.Chance(3, 4)) {
				x := e.Intn(len(avail))
				el := avail[x]
				avail = append(avail[:x], avail[x+1:]...)
				txn.SiacoinInputs = append(txn.SiacoinInputs, types.V2SiacoinInput{Parent: el})
				total = total.Add(el.SiacoinOutput.Value)
				continue
			}
			var t2 types.V2Transaction
			if !tb.FundV2(&t2, types.ZeroCurrency) {
				continue
			}
			// take only the first confirmed input FundV2 picked
			in := t2.SiacoinInputs[0]
			dup := false
			for _, have := range txn.SiacoinInputs {
				if have.Parent.ID == in.Parent.ID {
					dup = true
				}
			}
			if dup {
				continue
			}
			tb.MarkUsed(in.Parent.ID)
			txn.SiacoinInputs = append(txn.SiacoinInputs, in)
			total = total.Add(in.Parent.SiacoinOutput.Value)
		}
		if len(txn.SiacoinInputs) == 0 || total.IsZero() {
			continue
		}
		a := l.Net.Actors[e.Intn(len(l.Net.Actors))]
		owner = &a
		// 2-3 outputs to generator keys
		nOut := e.Range(2, 3)
		rest := total
		for j := 0; j < nOut-1; j++ {
			v := rest.Div64(uint64(e.Range(2, 4)))
			if v.IsZero() {
				break
			}
			txn.SiacoinOutputs = append(txn.SiacoinOutputs, types.SiacoinOutput{Address: l.Net.Actors[e.Intn(len(l.Net.Actors))].Addr, Value: v})
			rest = rest.Sub(v)
		}
		txn.SiacoinOutputs = append(txn.SiacoinOutputs, types.SiacoinOutput{Address: owner.Addr, Value: rest})
		if e.Chance(1, 2) {
			// shuffle the input order: dependency order must not depend on it
			p := e.Perm(len(txn.SiacoinInputs))
			ins := make([]types.V2SiacoinInput, len(p))
			for x, y := range p {
				ins[x] = txn.SiacoinInputs[y]
			}
			txn.SiacoinInputs = ins
		}
		tb.SignV2(&txn)
		if !tb.CommitV2("dag", txn) {
			continue
		}
		for j := range txn.SiacoinOutputs {
			avail = append(avail, txn.EphemeralSiacoinOutput(j))
		}
		set = append(set, txn)
	}
	return set
}

// topoOK reports whether every ephemeral input of set[i] is created by an
// earlier transaction of the set.
func topoOK(set []types.V2Transaction) (string, bool) {
	created := map[types.SiacoinOutputID]bool{}
	for i := range set {
		for _, in := range set[i].SiacoinInputs {
			if in.Parent.StateElement.LeafIndex == types.UnassignedLeafIndex && !created[in.Parent.ID] {
				return fmt.Sprintf("transaction %d (%v) spends ephemeral output %v before its parent appears", i, set[i].ID(), in.Parent.ID), false
			}
		}
		id := set[i].ID()
		for j := range set[i].SiacoinOutputs {
			created[set[i].SiacoinOutputID(id, j)] = true
		}
	}
	return "", true
}

func runC13(e *sim.Env) {
	now := time.Now()
	long := e.Chance(1, 10)
	net := gen.NewNet(e, now, gen.NetOpts{MaxHeight: 320, Regime: []string{"overlap", "v2"}[e.Pick(1, 1)], AllowLo: 2, AllowHi: 5})
	tree := gen.NewTree(net)
	s := newChainSUT(e, net, simdisk.New())
	e.Shape("net", net.Regime, fmt.Sprint(long))
	bo := gen.BlockOpts{Mix: gen.FullMix, MaxTx: e.Range(0, 4), OrderSafe: true, Now: now, Strict: genStrict, Miner: net.Actors[0].Addr}
	tree.Grow(e, gen.GrowOpts{Blocks: e.Range(10, 40), Block: bo, MinerPool: []types.Address{net.Actors[0].Addr, net.Actors[1].Addr, types.VoidAddress}})
	var legBase, legB *gen.Node
	if long {
		// one long empty stretch to reach the distance limit
		tip := tree.Heaviest()
		base := tip
		for i, n := 0, e.Range(150, 230); i < n; i++ {
			tip = tree.ExtendHeaderOnly(e, tip, gen.BlockOpts{Now: now, Miner: types.VoidAddress, MinGap: true})
		}
		if e.Chance(1, 2) {
			// and a second, shorter one from the same block: a pair of indices
			// whose two legs are each moderate but together beyond the limit
			legBase, legB = base, base
			for i, n := 0, e.Range(100, 140); i < n; i++ {
				legB = tree.ExtendHeaderOnly(e, legB, gen.BlockOpts{Now: now, Miner: types.VoidAddress, MinGap: true})
			}
			e.Shape("two-legs")
		}
	}
	dominant := tree.MakeDominant(e, bo)
	plan := makePlan(e, tree)
	if legB != nil {
		// the shorter leg first, so that it has been the best chain once
		plan = append([][]*gen.Node{legB.PathFromGenesis()[1:]}, plan...)
	}
	plan = append(plan, dominant.PathFromGenesis()[1:])
	for _, batch := range plan {
		if len(batch) > 0 {
			e.Guard("C13.panic", "AddBlocks", func() { s.cm.AddBlocks(blocksOf(batch)) })
		}
	}
	tip := auditBestChain(e, "C13", s, tree)
	// blocks that have been applied at some point carry a supplement
	applied := map[types.BlockID]bool{tree.Genesis.ID: true}
	for _, idx := range s.store.tipLog {
		applied[idx.ID] = true
	}
	var appliedNodes []*gen.Node
	for _, n := range tree.Nodes {
		if applied[n.ID] {
			appliedNodes = append(appliedNodes, n)
		}
	}

	rebases := e.Range(4, 14)
	for r := 0; r < rebases; r++ {
		e.Step()
		from := appliedNodes[e.Intn(len(appliedNodes))]
		to := appliedNodes[e.Intn(len(appliedNodes))]
		if e.Chance(1, 3) {
			to = tip
		}
		if legB != nil && applied[legB.ID] && legBase.IsAncestorOf(tip) && e.Chance(1, 2) {
			// from deep in the shorter leg to 60-144 blocks up the other one
			from = legB.Ancestor(legB.Height - uint64(e.Range(0, 40)))
			to = tip.Ancestor(legBase.Height + uint64(e.Range(60, 144)))
			e.Probe("rebase_between_two_long_legs")
		}
		if from.Height+1 < net.Allow() {
			continue
		}
		fork := gen.CommonAncestor(from, to)
		nRevert, nApply := int(from.Height-fork.Height), int(to.Height-fork.Height)
		dist := nRevert + nApply

		// a set valid at from
		tb := gen.NewTxBuilder(e, from.L)
		tb.OrderSafe, tb.UsedEnds, tb.Strict = true, tree.UsedEnds, genStrict
		mix := gen.FullMix
		mix.Pay, mix.SF, mix.FCForm, mix.FCRevise, mix.FCProof, mix.Arb, mix.Foundation = 0, 0, 0, 0, 0, 0, 0
		mix.V2Eph = 6
		for k, n := 0, e.Range(1, 6); k < n; k++ {
			tb.Draw(mix)
		}
		// sometimes include transactions that really get confirmed on the way
		laterIDs := map[types.TransactionID]bool{}
		if nApply > 0 && e.Chance(1, 2) {
			for _, n := range to.PathFromGenesis()[fork.Height+1:] {
				for _, txn := range n.Block.V2Transactions() {
					if len(txn.SiacoinInputs) > 0 && e.Chance(1, 3) || len(txn.SiacoinInputs) == 0 && len(txn.SiafundInputs) > 0 && e.Chance(1, 2) {
						// re-proof it for `from` when its inputs exist there
						tb.Strict = false // may legitimately conflict with the set so far
						if fresh, ok := refreshV2(txn, from.L, nil); ok && tb.CommitV2("confirmed-later", fresh) {
							laterIDs[fresh.ID()] = true
							e.Probe("set_has_later_confirmed_txn")
							tb.Mark("set_has_later_confirmed_txn")
						}
						tb.Strict = genStrict
					}
				}
			}
		}
		if tb.Probed("set_has_later_confirmed_txn") {
			// children of transactions that will be confirmed on the way
			for k, n := 0, e.Range(0, 2); k < n; k++ {
				tb.V2Pay(true)
			}
			// ... and a child of a siafund output one of them creates
			if tb.V2SFEph() {
				e.Probe("set_has_ephemeral_siafund_child")
			}
		}
		set := tb.V2Txns
		if len(laterIDs) > 0 && e.Chance(1, 2) {
			// the children on their own (the way a renter rebases its transaction
			// while the parents travel separately): their inputs still get the
			// elements of the parents confirmed on the way
			var alone []types.V2Transaction
			for _, t := range set {
				if !laterIDs[t.ID()] {
					alone = append(alone, t)
				}
			}
			if len(alone) > 0 && len(alone) < len(set) {
				set = alone
				e.Probe("rebase_children_without_their_confirmed_parents")
			}
		}
		if len(set) == 0 {
			continue
		}
		input := make([]types.V2Transaction, len(set))
		for i := range set {
			input[i] = set[i].DeepCopy()
		}

		// corruption of proof or basis
		corrupt := ""
		fromIdx, toIdx := from.Index(), to.Index()
		switch e.Pick(8, 1, 1, 1, 1) {
		case 1:
			copy(fromIdx.ID[:], e.Bytes(32))
			corrupt = "unknown-from"
		case 2:
			copy(toIdx.ID[:], e.Bytes(32))
			corrupt = "unknown-to"
		case 3:
			for i := range input {
				for j := range input[i].SiacoinInputs {
					p := &input[i].SiacoinInputs[j].Parent.StateElement
					if len(p.MerkleProof) > 0 && corrupt == "" {
						p.MerkleProof[e.Intn(len(p.MerkleProof))][e.Intn(32)] ^= 1
						corrupt = "proof-bit"
					}
				}
			}
		case 4:
			for i := range input {
				for j := range input[i].SiacoinInputs {
					p := &input[i].SiacoinInputs[j].Parent.StateElement
					if p.LeafIndex != types.UnassignedLeafIndex && corrupt == "" {
						p.LeafIndex += uint64(e.Range(1, 1000))
						corrupt = "leaf-index"
					}
				}
			}
		}
		if corrupt != "" {
			e.Fault("corrupt-" + corrupt)
		}

		var out []types.V2Transaction
		var err error
		e.Guard("C13.panic", "UpdateV2TransactionSet("+corrupt+")", func() { out, err = s.cm.UpdateV2TransactionSet(input, fromIdx, toIdx) })
		e.Logf("UpdateV2TransactionSet(%d txns kinds=%v, %s -> %s, -%d +%d, corrupt=%q) -> %d txns err=%v", len(input), tb.Kinds, from.Describe(), to.Describe(), nRevert, nApply, corrupt, len(out), err != nil)
		e.Shape("rebase", bucket(nRevert), bucket(nApply), corrupt, fmt.Sprint(err != nil))
		if nRevert > 0 && nApply > 0 {
			e.Nontrivial = true
			e.Probe("rebase_across_fork")
		}
		if corrupt != "" {
			if err == nil && fromIdx != toIdx {
				e.Violationf("C13.invalid-rejected", "no-error:"+corrupt, "UpdateV2TransactionSet accepted a set with %s", corrupt)
			}
			continue
		}
		if from == to {
			continue
		}
		// what must happen
		mustErr := ""
		if dist >= 200 {
			mustErr = "path longer than the supported distance"
		}
		for i := range set {
			for _, in := range set[i].SiacoinInputs {
				if in.Parent.StateElement.LeafIndex == types.UnassignedLeafIndex {
					continue
				}
				if _, ok := fork.L.SC[in.Parent.ID]; !ok {
					mustErr = "an input was created in a reverted block"
				}
			}
			for _, in := range set[i].SiafundInputs {
				if in.Parent.StateElement.LeafIndex == types.UnassignedLeafIndex {
					continue
				}
				if _, ok := fork.L.SF[in.Parent.ID]; !ok {
					mustErr = "an input was created in a reverted block"
				}
			}
			for _, r := range set[i].FileContractRevisions {
				if _, ok := fork.L.V2FC[r.Parent.ID]; !ok {
					mustErr = "a contract was created in a reverted block"
				}
			}
			for _, r := range set[i].FileContractResolutions {
				if _, ok := fork.L.V2FC[r.Parent.ID]; !ok {
					mustErr = "a contract was created in a reverted block"
				}
				if sp, ok := r.Resolution.(*types.V2StorageProof); ok && sp.ProofIndex.ChainIndex.Height > fork.Height {
					mustErr = "a proof index lies in a reverted block"
				}
			}
		}
		if mustErr != "" {
			if err == nil {
				e.Violationf("C13.invalid-rejected", "no-error:"+mustErr[:12], "UpdateV2TransactionSet succeeded although %s (%s -> %s)", mustErr, from.Describe(), to.Describe())
			}
			e.Probe("rebase_must_fail")
			continue
		}
		if dist > 100 {
			// between the guaranteed and the rejected distance: only "no panic",
			// and correctness if it succeeded
			if err != nil {
				e.Probe("rebase_long_rejected")
				continue
			}
		} else if err != nil {
			e.Violationf("C13.rebase-succeeds", "error", "UpdateV2TransactionSet(%s -> %s, -%d +%d) failed although every input exists at the fork point and the distance is supported: %v (kinds %v)", from.Describe(), to.Describe(), nRevert, nApply, err, tb.Kinds)
		}
		// same transactions minus those confirmed on the applied part, same order
		confirmed := map[types.TransactionID]bool{}
		for _, n := range to.PathFromGenesis()[fork.Height+1:] {
			for _, txn := range n.Block.V2Transactions() {
				confirmed[txn.ID()] = true
			}
		}
		var wantIDs []types.TransactionID
		for i := range set {
			if !confirmed[set[i].ID()] {
				wantIDs = append(wantIDs, set[i].ID())
			}
		}
		var gotIDs []types.TransactionID
		for i := range out {
			gotIDs = append(gotIDs, out[i].ID())
		}
		if fmt.Sprint(gotIDs) != fmt.Sprint(wantIDs) {
			e.Violationf("C13.same-minus-confirmed", "ids", "rebased set has ids %v, expected the input minus confirmed transactions in the same order: %v", gotIDs, wantIDs)
		}
		if len(wantIDs) != len(set) {
			e.Probe("rebase_dropped_confirmed")
		}
		// every input's element equals the ledger's at the target
		for i := range out {
			for j, in := range out[i].SiacoinInputs {
				el, ok := to.L.SC[in.Parent.ID]
				switch {
				case ok && !bytes.Equal(gen.Enc(in.Parent), gen.Enc(el)):
					e.Violationf("C13.proofs-at-target", "siacoin", "rebased transaction %d input %d (%v): leaf %d, %d proof hashes; the ledger at %s has leaf %d, %d hashes", i, j, in.Parent.ID, in.Parent.StateElement.LeafIndex, len(in.Parent.StateElement.MerkleProof), to.Describe(), el.StateElement.LeafIndex, len(el.StateElement.MerkleProof))
				case ok && in.Parent.StateElement.LeafIndex != types.UnassignedLeafIndex:
					e.Probe("rebase_proof_checked")
				}
				if ok {
					// an ephemeral input whose parent got confirmed must now carry the element
					for _, orig := range set {
						if orig.ID() == out[i].ID() && orig.SiacoinInputs[j].Parent.StateElement.LeafIndex == types.UnassignedLeafIndex {
							e.Probe("rebase_ephemeral_became_confirmed")
						}
					}
				}
			}
			for j, in := range out[i].SiafundInputs {
				el, ok := to.L.SF[in.Parent.ID]
				// the property speaks of leaf index and Merkle proof: an ephemeral
				// siafund input that became confirmed keeps ClaimStart 0 (only its
				// StateElement is filled in), which is counted, not judged (12.7)
				if ok && bytes.Equal(gen.Enc(in.Parent.StateElement), gen.Enc(el.StateElement)) && !bytes.Equal(gen.Enc(in.Parent), gen.Enc(el)) {
					e.Probe("rebase_siafund_claimstart_not_filled")
					// does the child validate at the target, and is ClaimStart the only reason if not?
					if len(out[i].SiafundInputs) == 1 && len(out[i].SiacoinInputs) == 0 {
						if verr := consensus.ValidateV2Transaction(consensus.NewMidState(to.L.State), out[i]); verr != nil {
							fixed := out[i].DeepCopy()
							fixed.SiafundInputs[j].Parent.ClaimStart = el.ClaimStart
							if consensus.ValidateV2Transaction(consensus.NewMidState(to.L.State), fixed) == nil {
								e.Probe("known_claimstart")
								e.Violationf("C13.valid-at-target", "ephemeral-siafund-claimstart", "rebased transaction %d (%v) spends the siafund output %v of a parent confirmed on the way; its leaf index and proof were filled in but ClaimStart stayed %v (ledger at %s: %v), so it is invalid at the target (%v) and valid once ClaimStart is filled in", i, out[i].ID(), in.Parent.ID, in.Parent.ClaimStart, to.Describe(), el.ClaimStart, verr)
							} else {
								e.Probe("rebase_siafund_claimstart_child_invalid_for_another_reason")
							}
						} else {
							e.Probe("rebase_siafund_claimstart_child_valid_at_target")
						}
					}
				}
				if ok && !bytes.Equal(gen.Enc(in.Parent.StateElement), gen.Enc(el.StateElement)) {
					e.Violationf("C13.proofs-at-target", "siafund", "rebased transaction %d siafund input %d (%v): leaf %d, %d proof hashes; the ledger at %s has leaf %d, %d hashes", i, j, in.Parent.ID, in.Parent.StateElement.LeafIndex, len(in.Parent.StateElement.MerkleProof), to.Describe(), el.StateElement.LeafIndex, len(el.StateElement.MerkleProof))
				}
				if ok {
					for _, orig := range set {
						if orig.ID() == out[i].ID() && orig.SiafundInputs[j].Parent.StateElement.LeafIndex == types.UnassignedLeafIndex {
							e.Probe("rebase_ephemeral_siafund_became_confirmed")
						}
					}
				}
			}
			for j, r := range out[i].FileContractRevisions {
				if el, ok := to.L.V2FC[r.Parent.ID]; ok && !bytes.Equal(gen.Enc(r.Parent.StateElement), gen.Enc(el.StateElement)) {
					e.Violationf("C13.proofs-at-target", "contract", "rebased transaction %d revision %d parent proof differs from the ledger at %s", i, j, to.Describe())
				}
			}
			for j, r := range out[i].FileContractResolutions {
				if el, ok := to.L.V2FC[r.Parent.ID]; ok && !bytes.Equal(gen.Enc(r.Parent.StateElement), gen.Enc(el.StateElement)) {
					e.Violationf("C13.proofs-at-target", "contract", "rebased transaction %d resolution %d parent proof differs from the ledger at %s", i, j, to.Describe())
				}
				if sp, ok := r.Resolution.(*types.V2StorageProof); ok {
					if cie, ok := to.L.CIE[sp.ProofIndex.ChainIndex.Height]; ok && !bytes.Equal(gen.Enc(sp.ProofIndex), gen.Enc(cie)) {
						e.Violationf("C13.proofs-at-target", "proof-index", "rebased storage proof's chain index element differs from the ledger at %s", to.Describe())
					}
				}
			}
		}
		// usable: if the set is still valid at the target, a fresh pool there accepts it
		ms := consensus.NewMidState(to.L.State)
		valid := true
		for i := range out {
			if consensus.ValidateV2Transaction(ms, out[i]) != nil {
				valid = false
				break
			}
			ms.ApplyV2Transaction(out[i])
		}
		if valid && len(out) > 0 && to == tip {
			fresh := (&linearTwin{net: net}).at(e, tree, tip)
			cp := make([]types.V2Transaction, len(out))
			for i := range out {
				cp[i] = out[i].DeepCopy()
			}
			before := encV2Set(cp)
			if _, err := fresh.cm.AddV2PoolTransactions(tip.Index(), cp); err != nil {
				e.Violationf("C13.rebased-set-usable", "fresh-pool-rejects", "the rebased set validates at %s but a fresh pool rejects it: %v", tip.Describe(), err)
			}
			if !bytes.Equal(before, encV2Set(cp)) {
				e.Violationf("C13.caller-memory", "modified", "AddV2PoolTransactions modified the caller's transactions")
			}
			e.Probe("rebased_set_accepted_by_fresh_pool")
		}
	}

	// broadcastable sets: pooled parents before children, basis == tip
	if tip.Height+1 >= net.Allow() {
		for round := 0; round < 2; round++ {
			e.Step()
			set := dagSet(e, tip.L, e.Range(3, 7))
			if len(set) < 2 {
				continue
			}
			// pool everything but the last transaction
			parents := make([]types.V2Transaction, len(set)-1)
			for i := range parents {
				parents[i] = set[i].DeepCopy()
			}
			var err error
			e.Guard("C13.panic", "AddV2PoolTransactions", func() { _, err = s.cm.AddV2PoolTransactions(tip.Index(), parents) })
			if err != nil {
				// may conflict with the previous round's pool contents
				e.Probe("dag_parents_rejected")
				continue
			}
			if tip.Parent != nil && e.Chance(1, 2) {
				// a copy of a transaction that is in the pool now, with a damaged
				// proof (its id does not cover proofs): still an invalid proof
				bad := parents[0].DeepCopy()
				what := ""
				for j := range bad.SiacoinInputs {
					p := &bad.SiacoinInputs[j].Parent.StateElement
					if p.LeafIndex == types.UnassignedLeafIndex || what != "" {
						continue
					}
					if len(p.MerkleProof) > 0 && e.Chance(1, 2) {
						p.MerkleProof[e.Intn(len(p.MerkleProof))][e.Intn(32)] ^= 1
						what = "proof-bit"
					} else {
						p.LeafIndex += uint64(e.Range(1, 1000))
						what = "leaf-index"
					}
				}
				if what != "" {
					var uerr, terr error
					e.Guard("C13.panic", "UpdateV2TransactionSet(pooled, "+what+")", func() {
						_, uerr = s.cm.UpdateV2TransactionSet([]types.V2Transaction{bad.DeepCopy()}, tip.Index(), tip.Parent.Index())
						_, _, terr = s.cm.V2TransactionSet(tip.Parent.Index(), bad.DeepCopy())
					})
					e.Fault("corrupt-pooled-" + what)
					if uerr == nil {
						e.Violationf("C13.invalid-rejected", "no-error:pooled-"+what, "UpdateV2TransactionSet accepted a copy of a pooled transaction with a damaged %s (basis %v -> %v)", what, tip.Index(), tip.Parent.Index())
					}
					_ = terr
				}
			}
			last := set[len(set)-1].DeepCopy()
			basis := tip.Index()
			stale := false
			if e.Chance(1, 3) {
				// a block confirms the first parents, and the set is asked for
				// before anything else looks at the pool: the transaction (proofs as
				// of the old tip) still has to come back with its remaining parents
				j := e.Range(1, len(parents))
				blk := gen.AssembleBlock(e, net, tip.L.State, tree.Timestamp(e, tip, now, false), types.VoidAddress, nil, set[:j], true)
				if nn, aerr := tree.AddForeign(tip, blk); aerr == nil {
					var berr error
					e.Guard("C13.panic", "AddBlocks", func() { berr = s.cm.AddBlocks([]types.Block{blk}) })
					if berr != nil {
						e.Violationf("C13.valid-accepted", "confirming-block", "a block confirming pooled transactions was rejected: %v", berr)
					}
					tip = nn
					// the caller's copy, brought to the new tip: inputs created by
					// the confirmed parents are ordinary elements now, those of the
					// parents still pooled stay ephemeral
					pooledOut := map[types.SiacoinOutputID]bool{}
					for _, pt := range set[j : len(set)-1] {
						id := pt.ID()
						for k := range pt.SiacoinOutputs {
							pooledOut[pt.SiacoinOutputID(id, k)] = true
						}
					}
					if fresh, ok := refreshV2(last, tip.L, pooledOut); ok {
						last, basis = fresh, tip.Index()
					} else {
						stale = true
					}
					e.Probe("txnset_after_parents_confirmed")
				}
			} else if e.Chance(1, 3) && tip.Height > net.Allow()+1 {
				// hand it over with proofs as of the parent block
				if old, ok := refreshV2(last, tip.Parent.L, map[types.SiacoinOutputID]bool{}); ok {
					last, basis, stale = old, tip.Parent.Index(), true
				}
			}
			var gotBasis types.ChainIndex
			var got []types.V2Transaction
			e.Guard("C13.panic", "V2TransactionSet", func() { gotBasis, got, err = s.cm.V2TransactionSet(basis, last) })
			e.Logf("V2TransactionSet(dag of %d, stale=%v) -> %d txns err=%v", len(set), stale, len(got), err != nil)
			e.Shape("txnset", bucket(len(set)), fmt.Sprint(stale), fmt.Sprint(err != nil))
			e.Nontrivial = true
			if err != nil {
				if stale && hasEphemeral(last) {
					continue // proofs of an ephemeral input cannot be expressed at an older basis
				}
				e.Violationf("C13.txnset", "error", "V2TransactionSet failed for a transaction whose parents are pooled: %v", err)
			}
			if gotBasis != tip.Index() {
				e.Violationf("C13.txnset", "basis", "V2TransactionSet returned basis %v, the tip is %v", gotBasis, tip.Index())
			}
			if len(got) == 0 || got[len(got)-1].ID() != last.ID() {
				e.Violationf("C13.txnset", "last", "V2TransactionSet did not return the transaction itself as the last element")
			}
			if why, ok := topoOK(got); !ok {
				e.Violationf("C13.txnset-parents-first", "order", "V2TransactionSet returned a set that is not in dependency order: %s", why)
			}
			fresh := (&linearTwin{net: net}).at(e, tree, tip)
			if _, err := fresh.cm.AddV2PoolTransactions(gotBasis, got); err != nil {
				e.Violationf("C13.txnset-broadcastable", "fresh-pool-rejects", "a fresh pool rejects the set returned by V2TransactionSet: %v", err)
			}
			e.Probe("txnset_checked")
		}
	}
}

func hasEphemeral(t types.V2Transaction) bool {
	for _, in := range t.SiacoinInputs {
		if in.Parent.StateElement.LeafIndex == types.UnassignedLeafIndex {
			return true
		}
	}
	return false
}

func init() {
	register(&Prop{
		ID: "C13", Run: runC13, Quick: 700, Thorough: 20000, Level: "exploration",
		Rule:        "one run = fork tree handed to the node (1 run in 10 with a 150-230 block stretch, half of those with a second stretch of 100-140 blocks from the same block that has been the best chain first, and rebases from deep in it to 60-144 blocks up the other one: two moderate legs, together beyond the limit), then 4-14 rebases of a v2 transaction set valid at a drawn applied index `from` (confirmed/ephemeral/mixed parents, contract revisions, renewals, storage proofs, expirations, transactions that get confirmed on the way, children spending an ephemeral siacoin or siafund output of those) to a drawn index `to` on the same or another branch, or with a corrupted basis / proof bit / leaf index; then two rounds of a drawn dependency DAG pooled on the node and V2TransactionSet asked for its last transaction (tip basis, stale basis, or right after a block confirmed some of its parents and before any other pool query); oracles: error iff required, same transactions minus confirmed ones in order, every element == reference ledger at `to`, ephemeral->confirmed replacement, returned sets in dependency order with basis == tip and accepted by a fresh pool; distinct = abstract trace (revert/apply length buckets, corruption, error); non-trivial = a rebase across a fork or a DAG query",
		Real:        []string{"chain.Manager (UpdateV2TransactionSet, V2TransactionSet, AddV2PoolTransactions)", "chain.DBStore"},
		Stub:        []string{"disk: simdisk.DB"},
		Assumptions: []string{"distances up to 100 must be supported and distances from 200 must be rejected; in between only absence of panics and correctness on success are demanded"},
	})
}
