package props

import (
	"errors"
	"fmt"
	"os"
	"time"

	"go.sia.tech/core/types"
	"go.sia.tech/coreutils/chain"

	"verif/gen"
	"verif/sim"
	"verif/simdisk"
)

var genStrict = os.Getenv("VERIF_GEN_STRICT") != ""

// makePlan turns a fork tree into a sequence of AddBlocks batches with every
// F-order variant: in order, split at drawn sizes, orphans first, duplicated,
// mixing branches, starting below / at / above what the node already knows.
func makePlan(e *sim.Env, t *gen.Tree) [][]*gen.Node {
	var leaves []*gen.Node
	for _, n := range t.Nodes {
		if len(n.Children) == 0 && n.Parent != nil {
			leaves = append(leaves, n)
		}
	}
	// mostly creation order (so the node follows the growth of the tree and
	// reorgs back and forth), sometimes shuffled
	if e.Chance(1, 3) {
		p := e.Perm(len(leaves))
		sh := make([]*gen.Node, len(leaves))
		for i, j := range p {
			sh[i] = leaves[j]
		}
		leaves = sh
	}
	var plan [][]*gen.Node
	split := func(seg []*gen.Node) [][]*gen.Node {
		var out [][]*gen.Node
		for len(seg) > 0 {
			n := len(seg)
			if e.Chance(2, 3) {
				n = e.Range(1, min(len(seg), 8))
			}
			out = append(out, seg[:n])
			seg = seg[n:]
		}
		return out
	}
	var prev []*gen.Node
	for _, leaf := range leaves {
		path := leaf.PathFromGenesis()[1:]
		if len(path) == 0 {
			continue
		}
		// growth stages: submit the branch in 1-3 instalments so that other
		// branches overtake it in between
		start := 0
		switch e.Pick(5, 2, 1) {
		case 1:
			start = e.Intn(len(path)) // may leave a gap below (missing parent) or overlap known blocks
		case 2:
			start = len(path) - 1
		}
		seg := path[start:]
		chunks := split(seg)
		switch e.Pick(6, 2, 1, 1, 1) {
		case 0: // in order
			plan = append(plan, chunks...)
		case 1: // orphans first, then in order
			for i := len(chunks) - 1; i >= 0; i-- {
				plan = append(plan, chunks[i])
			}
			plan = append(plan, path)
		case 2: // every batch twice
			for _, c := range chunks {
				plan = append(plan, c, c)
			}
		case 3: // one batch mixing this branch with the previous one
			mixed := append(append([]*gen.Node(nil), prev...), seg...)
			plan = append(plan, mixed)
			plan = append(plan, path)
		case 4: // previous branch's blocks appended after this one (last block decides)
			mixed := append(append([]*gen.Node(nil), seg...), prev...)
			plan = append(plan, mixed)
		}
		prev = seg
	}
	// finally everything in order, so that the run ends with the node knowing
	// the whole tree
	for _, leaf := range leaves {
		plan = append(plan, leaf.PathFromGenesis()[1:])
	}
	return plan
}

func regime(net *gen.Net, h uint64) string {
	switch {
	case h < net.Allow():
		return "v1"
	case h < net.Require():
		return "ov"
	}
	return "v2"
}

func bucket(n int) string {
	switch {
	case n == 0:
		return "0"
	case n == 1:
		return "1"
	case n <= 3:
		return "2-3"
	case n <= 8:
		return "4-8"
	case n <= 20:
		return "9-20"
	}
	return "21+"
}

// submit hands one batch to the node and checks everything C01 says about a
// single AddBlocks call. It returns the new tip node.
func submitChecked(e *sim.Env, inv string, s *chainSUT, t *gen.Tree, tip *gen.Node, batch []*gen.Node, fullView bool) (*gen.Node, error) {
	e.Step()
	now := time.Now()
	// the second entry point: blocks above the v2 require height that a syncer
	// has validated itself (each against the state it derived for its parent -
	// for a header-valid chain on top of an invalid block that is the header
	// state) go in through AddValidatedV2Blocks
	states, validated := s.validatedStates(batch)
	validated = validated && e.Chance(1, 2)
	exp := s.expectVia(batch, tip, now, validated)
	var before view
	before = takeView(s, false)
	oldState := s.cm.TipState()
	var err error
	call := "AddBlocks"
	if validated {
		call = "AddValidatedV2Blocks"
		e.Probe("via_add_validated")
		e.Shape("validated")
		e.Guard(inv+".panic", call, func() { err = s.cm.AddValidatedV2Blocks(blocksOf(batch), states) })
	} else {
		e.Guard(inv+".panic", call, func() { err = s.cm.AddBlocks(blocksOf(batch)) })
	}
	newTip := auditBestChain(e, inv, s, t)
	desc := fmt.Sprintf("%s(%d blocks, last %s) -> err=%v tip %s", call, len(batch), batch[len(batch)-1].Describe(), err, newTip.Describe())
	e.Logf("%s", desc)

	if err != nil {
		after := takeView(s, false)
		if what, ok := before.equal(after); !ok {
			e.Violationf(inv+".error-leaves-state", "changed:"+what, "%s failed (%v) but the node changed: %s", call, err, what)
		}
		if errors.Is(err, chain.ErrFutureBlock) {
			e.Probe("err_future_block")
		}
	}
	if newTip != tip {
		// the tip moved
		if err != nil {
			e.Violationf(inv+".error-leaves-state", "tip-moved-on-error", "%s failed (%v) but the tip moved %s -> %s", call, err, tip.Describe(), newTip.Describe())
		}
		last := batch[len(batch)-1]
		if newTip != last {
			e.Violationf(inv+".tip-is-submitted-chain", "tip-not-last", "tip moved to %s which is not the end of the submitted chain %s", newTip.Describe(), last.Describe())
		}
		if !newTip.L.State.SufficientlyHeavierThan(oldState) {
			e.Violationf(inv+".work-gate", "not-sufficiently-heavier", "tip moved %s -> %s without sufficiently more work", tip.Describe(), newTip.Describe())
		}
		if newTip.L.State.TotalWork.Cmp(oldState.TotalWork) < 0 {
			e.Violationf(inv+".work-monotone", "work-decreased", "total work decreased %s -> %s", tip.Describe(), newTip.Describe())
		}
		fork := gen.CommonAncestor(tip, newTip)
		depth := int(tip.Height - fork.Height)
		e.Shape("reorg", bucket(depth), regime(s.net, fork.Height), regime(s.net, newTip.Height))
		if depth > 0 {
			e.Probe("reorg_with_revert")
			e.Nontrivial = true
			if fork.Height < s.net.Allow() && tip.Height >= s.net.Allow() {
				e.Probe("reorg_crossing_allow_height")
			}
			if fork.Height < s.net.Require() && tip.Height >= s.net.Require() {
				e.Probe("reorg_crossing_require_height")
			}
		}
	} else {
		e.Shape("stay", fmt.Sprint(err != nil))
	}
	switch {
	case exp.mustErr && err == nil:
		e.Violationf(inv+".invalid-rejected", "no-error:"+exp.why, "%s succeeded although %s", call, exp.why)
	case exp.mustOK && err != nil:
		e.Violationf(inv+".valid-accepted", "error:"+exp.why, "%s failed (%v) although the batch is valid (%s)", call, err, exp.why)
	case exp.mustOK && exp.newTip != nil && newTip != exp.newTip:
		e.Violationf(inv+".heavier-adopted", "not-adopted", "batch ends in a valid, sufficiently heavier chain %s but the tip is %s", exp.newTip.Describe(), newTip.Describe())
	case exp.mustOK && exp.newTip == nil && newTip != tip:
		e.Violationf(inv+".work-gate", "moved-without-weight", "tip moved to %s although the submitted chain is not sufficiently heavier", newTip.Describe())
	}
	if exp.mustErr {
		e.Nontrivial = true
		e.Fault("rejected:" + exp.why[:min(len(exp.why), 24)])
		if newTip == tip && err != nil && batch[len(batch)-1].HState.Index.ID != (types.BlockID{}) && !batch[len(batch)-1].Valid() &&
			batch[len(batch)-1].HState.SufficientlyHeavierThan(oldState) {
			e.Probe("rollback_after_invalid_block")
		}
	}
	return newTip, err
}

func runC01(e *sim.Env) {
	now := time.Now()
	net := gen.NewNet(e, now, gen.NetOpts{MaxHeight: 100})
	tree := gen.NewTree(net)
	s := newChainSUT(e, net, simdisk.New())
	e.Shape("net", net.Regime)

	miners := []types.Address{types.VoidAddress, net.Actors[0].Addr, net.Actors[1].Addr}
	tree.Grow(e, gen.GrowOpts{
		Blocks:    e.Range(6, 40),
		Corrupt:   e.Range(0, 3),
		MinerPool: miners,
		LongFork:  true,
		Block:     gen.BlockOpts{Mix: gen.FullMix, MaxTx: e.Range(0, 5), OrderSafe: true, Now: now, Strict: genStrict},
	})
	plan := makePlan(e, tree)
	tip := tree.Genesis
	for _, batch := range plan {
		if len(batch) == 0 {
			continue
		}
		tip, _ = submitChecked(e, "C01", s, tree, tip, batch, false)
		if e.Chance(1, 10) {
			// let simulated time pass: blocks stamped in the future may become acceptable
			time.Sleep(time.Duration(e.Range(1, 30)) * time.Minute)
			e.Shape("clock")
		}
	}
	// after the whole tree was handed over in order, hand over the heaviest
	// valid chain once more: the per-call rules then demand that the node ends
	// on it unless its current tip is within the "sufficiently heavier" margin
	best := tree.Heaviest()
	if best.Parent != nil {
		submitChecked(e, "C01", s, tree, tip, best.PathFromGenesis()[1:], false)
	}
}

func init() {
	register(&Prop{
		ID: "C01", Run: runC01, Quick: 1500, Thorough: 40000, Level: "exploration",
		Rule:        "one run = drawn network (regime, hardfork heights, maturity, interval) + drawn fork tree (6-40 valid blocks with the full transaction mix, 0-3 single-field corrupted twins with header-valid chains on top) + drawn submission plan (in order / split / orphans first / duplicated / mixed branches); distinct = distinct abstract trace (sequence of outcome kind, reorg depth bucket, regimes, rejection reason); non-trivial = at least one reorg that reverts blocks or one rejected submission",
		Real:        []string{"chain.Manager", "chain.DBStore"},
		Stub:        []string{"disk: simdisk.DB (in-memory chain.DB with explicit commit)"},
		Assumptions: []string{"go.sia.tech/core consensus rules are the definition of validity", "blocks are generated by the harness, PoW target is trivial"},
	})
}
