package props

import (
	"bytes"
	"crypto/sha256"
	"encoding/binary"
	"encoding/json"
	"fmt"
	"sort"
	"time"

	"go.sia.tech/core/consensus"
	"go.sia.tech/core/types"
	"go.sia.tech/coreutils/chain"

	"verif/gen"
	"verif/sim"
	"verif/simdisk"
)

// recStore wraps the real DBStore: it logs every ApplyBlock / RevertBlock (the
// node's tip log) and lets the driver advance the simulated clock between two
// of them (so that the store's time-based flush can fire inside a reorg).
type recStore struct {
	*chain.DBStore
	tipLog   []types.ChainIndex // tip after each apply / revert
	between  func(apply bool)   // called before each apply / revert
	applies  int
	reverts  int
	curDepth int
	maxDepth int // deepest revert run seen in one reorg
}

func (s *recStore) ApplyBlock(cs consensus.State, cau consensus.ApplyUpdate) {
	// a scheduling point inside the manager's critical section (a no-op outside
	// a scheduled scope): code that reads the store without the manager's lock
	// gets to run in the middle of a reorg
	sim.YieldPoint("store.ApplyBlock")
	if s.between != nil {
		s.between(true)
	}
	// the tip is logged first: the store may commit inside ApplyBlock
	s.tipLog = append(s.tipLog, cs.Index)
	s.DBStore.ApplyBlock(cs, cau)
	s.applies++
	s.curDepth = 0
}

func (s *recStore) RevertBlock(cs consensus.State, cru consensus.RevertUpdate) {
	sim.YieldPoint("store.RevertBlock")
	if s.between != nil {
		s.between(false)
	}
	s.tipLog = append(s.tipLog, cs.Index)
	s.DBStore.RevertBlock(cs, cru)
	s.reverts++
	s.curDepth++
	if s.curDepth > s.maxDepth {
		s.maxDepth = s.curDepth
	}
}

// chainSUT is a real chain.Manager over a real chain.DBStore over the
// simulated disk.
type chainSUT struct {
	net   *gen.Net
	db    chain.DB    // whatever backend the store sits on
	disk  *simdisk.DB // non-nil when the backend is the simulated disk
	store *recStore
	cm    *chain.Manager
}

func newChainSUT(e *sim.Env, net *gen.Net, disk *simdisk.DB) *chainSUT {
	s := newChainSUTOn(e, net, disk)
	s.disk = disk
	return s
}

// dump returns the live pairs of a bucket through the chain.DB interface.
func (s *chainSUT) dump(name string) map[string][]byte {
	out := map[string][]byte{}
	b := s.db.Bucket([]byte(name))
	if b == nil {
		return out
	}
	for k, v := range b.Iter() {
		out[string(k)] = append([]byte(nil), v...)
	}
	return out
}

func newChainSUTOn(e *sim.Env, net *gen.Net, disk chain.DB) *chainSUT {
	dbs, tip, err := chain.NewDBStore(disk, net.Network, net.Genesis, nil)
	if err != nil {
		e.Violationf(e.Property+".open", "NewDBStore", "NewDBStore on a fresh database failed: %v", err)
	}
	rs := &recStore{DBStore: dbs}
	return &chainSUT{net: net, db: disk, store: rs, cm: chain.NewManager(rs, tip)}
}

// reopenChainSUT opens a manager on an existing database image.
func reopenChainSUT(net *gen.Net, disk *simdisk.DB) (*chainSUT, error) {
	dbs, tip, err := chain.NewDBStore(disk, net.Network, net.Genesis, nil)
	if err != nil {
		return nil, err
	}
	rs := &recStore{DBStore: dbs}
	return &chainSUT{net: net, db: disk, disk: disk, store: rs, cm: chain.NewManager(rs, tip)}, nil
}

func blocksOf(nodes []*gen.Node) []types.Block {
	bs := make([]types.Block, len(nodes))
	for i, n := range nodes {
		bs[i] = n.Block
	}
	return bs
}

// validatedStates says whether batch may go in through AddValidatedV2Blocks -
// a chain of v2 blocks above the require height, each individually valid
// against the state a syncer would have derived for its parent (the header
// state when the chain sits on top of an invalid block), first parent known -
// and returns those states.
func (s *chainSUT) validatedStates(batch []*gen.Node) ([]consensus.State, bool) {
	if _, ok := s.cm.State(batch[0].Block.ParentID); !ok || batch[0].Parent == nil || batch[0].Parent.Height < s.net.Require() {
		return nil, false
	}
	states := make([]consensus.State, len(batch))
	for i, n := range batch {
		if n.Block.V2 == nil || n.Corrupt != "" || n.OrphanInvalid || (i > 0 && n.Parent != batch[i-1]) {
			return nil, false
		}
		if n.Valid() {
			states[i] = n.L.State
		} else {
			states[i] = n.HState
		}
	}
	return states, true
}

// expectation is what the statement of C01 lets us predict about one
// AddBlocks call, computed from the generated tree and core only.
type expectation struct {
	mustErr bool      // the call must fail
	mustOK  bool      // the call must succeed
	newTip  *gen.Node // non-nil: the tip must be exactly this afterwards (nil = unchanged)
	why     string
}

// expect predicts the outcome of submitting batch when the tip is tip.
func (s *chainSUT) expect(batch []*gen.Node, tip *gen.Node, now time.Time) expectation {
	return s.expectVia(batch, tip, now, false)
}

// expectVia is expect for either entry point: AddValidatedV2Blocks
// (validated) demands a known parent for the first block and has no
// timestamp rule; everything about weight and validity is the same.
func (s *chainSUT) expectVia(batch []*gen.Node, tip *gen.Node, now time.Time, validated bool) expectation {
	// "known" is observed, not modelled: a block is known when the node can
	// produce a state for it
	stored := func(id types.BlockID) bool { _, ok := s.cm.State(id); return ok }
	known := func(id types.BlockID, upto int) bool {
		if stored(id) {
			return true
		}
		for _, n := range batch[:upto] {
			if n.ID == id {
				return true
			}
		}
		return false
	}
	for i, n := range batch {
		switch {
		case n.Parent == nil:
			// genesis: always known
		case !known(n.Parent.ID, i) && !stored(n.ID):
			return expectation{mustErr: true, why: fmt.Sprintf("block %d of the batch has an unknown parent", i)}
		case n.OrphanInvalid:
			return expectation{mustErr: true, why: fmt.Sprintf("block %d of the batch fails the header/payout checks (%s)", i, n.Corrupt)}
		case validated:
			// no header rules on this path
		case n.Block.Timestamp.After(now.Add(3 * time.Hour)):
			if stored(n.ID) {
				// may be skipped as already applied, or rejected again: both fine
				return expectation{why: "future block already known"}
			}
			return expectation{mustErr: true, why: fmt.Sprintf("block %d of the batch is too far in the future", i)}
		}
	}
	last := batch[len(batch)-1]
	if !last.HState.SufficientlyHeavierThan(tip.L.State) {
		return expectation{mustOK: true, why: "not sufficiently heavier"}
	}
	if last.Valid() {
		return expectation{mustOK: true, newTip: last, why: "valid and sufficiently heavier"}
	}
	return expectation{mustErr: true, why: "heavier chain contains an invalid block"}
}

// view is everything the node serves about its best chain, reduced to hashes
// (C01 uses it for "a failed submission changes nothing", C02/C03 compare it
// across nodes).
type view struct {
	Tip       types.ChainIndex
	TipState  [32]byte
	Index     [32]byte // BestIndex table
	Blocks    [32]byte // best-chain blocks with supplements
	States    [32]byte // best-chain states
	Elements  [32]byte // siacoin / siafund / file contract buckets
	Expiring  [32]byte // ExpiringFileContractIDs(h) for all h
	MainChain [32]byte // raw MainChain bucket
	detail    map[string]string
}

func (v view) equal(o view) (string, bool) {
	switch {
	case v.Tip != o.Tip:
		return fmt.Sprintf("tip %v vs %v", v.Tip, o.Tip), false
	case v.TipState != o.TipState:
		return "tip state", false
	case v.Index != o.Index:
		return "best index table", false
	case v.MainChain != o.MainChain:
		return "MainChain bucket", false
	case v.States != o.States:
		return "best-chain states", false
	case v.Blocks != o.Blocks:
		return "best-chain blocks / supplements", false
	case v.Elements != o.Elements:
		return "element buckets", false
	case v.Expiring != o.Expiring:
		return "expiring contract lists", false
	}
	return "", true
}

var elementBuckets = []string{"SiacoinElements", "SiafundElements", "FileContracts"}

// takeView reads the served view of a node. withDetail keeps per-item strings
// so that a mismatch can be explained.
func takeView(s *chainSUT, withDetail bool) view {
	var v view
	if withDetail {
		v.detail = map[string]string{}
	}
	ts := s.cm.TipState()
	v.Tip = ts.Index
	v.TipState = sha256.Sum256(gen.StateBytes(ts))

	hIdx, hBlk, hSt, hExp := sha256.New(), sha256.New(), sha256.New(), sha256.New()
	// a store initialised at a checkpoint has no index below it
	base := uint64(0)
	if _, ok := s.store.BestIndex(0); !ok {
		for base = 1; base <= v.Tip.Height; base++ {
			if _, ok := s.store.BestIndex(base); ok {
				break
			}
		}
	}
	for h := base; ; h++ {
		idx, ok := s.store.BestIndex(h)
		if !ok {
			break
		}
		hIdx.Write(idx.ID[:])
		if b, bs, ok := s.store.Block(idx.ID); ok {
			hBlk.Write(gen.Enc(types.V2Block(b)))
			if bs != nil {
				eb := gen.Enc(*bs)
				hBlk.Write(eb)
				if withDetail {
					v.detail[fmt.Sprintf("supp/%d", h)] = fmt.Sprintf("%x", sha256.Sum256(eb))
				}
			} else {
				hBlk.Write([]byte("nosupp"))
			}
		} else {
			hBlk.Write([]byte("pruned"))
		}
		if cs, ok := s.store.State(idx.ID); ok {
			hSt.Write(gen.StateBytes(cs))
		} else {
			hSt.Write([]byte("nostate"))
		}
		if h > v.Tip.Height+64 {
			break
		}
	}
	hIdx.Sum(v.Index[:0])
	hBlk.Sum(v.Blocks[:0])
	hSt.Sum(v.States[:0])

	he := sha256.New()
	maxExp := uint64(0)
	for _, name := range elementBuckets {
		d := s.dump(name)
		keys := make([]string, 0, len(d))
		for k := range d {
			keys = append(keys, k)
		}
		sort.Strings(keys)
		he.Write([]byte(name))
		for _, k := range keys {
			if name == "FileContracts" && len(k) == 8 {
				// expiration list; compared through ExpiringFileContractIDs
				if h := binary.BigEndian.Uint64([]byte(k)); h > maxExp && len(d[k]) > 0 {
					maxExp = h
				}
				continue
			}
			he.Write([]byte(k))
			he.Write(d[k])
			if withDetail {
				v.detail[name+"/"+fmt.Sprintf("%x", k)] = fmt.Sprintf("%x", sha256.Sum256(d[k]))
			}
		}
	}
	he.Sum(v.Elements[:0])
	for h := uint64(0); h <= maxExp; h++ {
		ids := s.store.ExpiringFileContractIDs(h)
		if len(ids) == 0 {
			continue
		}
		var hb [8]byte
		binary.BigEndian.PutUint64(hb[:], h)
		hExp.Write(hb[:])
		for _, id := range ids {
			hExp.Write(id[:])
		}
		if withDetail {
			v.detail[fmt.Sprintf("expiring/%d", h)] = fmt.Sprint(ids)
		}
	}
	hExp.Sum(v.Expiring[:0])

	hm := sha256.New()
	mc := s.dump("MainChain")
	keys := make([]string, 0, len(mc))
	for k := range mc {
		keys = append(keys, k)
	}
	sort.Strings(keys)
	for _, k := range keys {
		hm.Write([]byte(k))
		hm.Write(mc[k])
	}
	hm.Sum(v.MainChain[:0])
	return v
}

func diffDetail(a, b view) string {
	var out []string
	for k, va := range a.detail {
		if vb, ok := b.detail[k]; !ok {
			out = append(out, "only in first: "+k)
		} else if va != vb {
			out = append(out, fmt.Sprintf("differs: %s (%s vs %s)", k, va, vb))
		}
	}
	for k := range b.detail {
		if _, ok := a.detail[k]; !ok {
			out = append(out, "only in second: "+k)
		}
	}
	sort.Strings(out)
	if len(out) > 12 {
		out = append(out[:12], fmt.Sprintf("… %d more", len(out)-12))
	}
	return fmt.Sprint(out)
}

// auditBestChain checks the parts of C01 that are about the reported chain
// itself: parent links, validity of every block (each is a node of the
// generated tree that the reference ledger validated from genesis), and
// tip state == independent replay. It returns the tree node of the tip.
func auditBestChain(e *sim.Env, inv string, s *chainSUT, t *gen.Tree) *gen.Node {
	ts := s.cm.TipState()
	tip := ts.Index
	tipNode, ok := t.ByID[tip.ID]
	if !ok {
		e.Violationf(inv+".tip-known", "tip-unknown", "tip %v is not a block of the submitted tree", tip)
	}
	if !tipNode.Valid() {
		e.Violationf(inv+".no-invalid-block", "invalid-tip:"+tipNode.Corrupt, "tip %v is invalid (%s)", tip, tipNode.Describe())
	}
	if tipNode.Height != tip.Height {
		e.Violationf(inv+".height", "tip-height", "tip reports height %d, block is at height %d", tip.Height, tipNode.Height)
	}
	path := tipNode.PathFromGenesis()
	for h, n := range path {
		idx, ok := s.cm.BestIndex(uint64(h))
		if !ok {
			e.Violationf(inv+".index-gap", "index-gap", "BestIndex(%d) missing below tip %v", h, tip)
		}
		if idx.ID != n.ID || idx.Height != uint64(h) {
			// find out whether it is an invalid block, a foreign branch, or garbage
			if other, ok := t.ByID[idx.ID]; ok && !other.Valid() {
				e.Violationf(inv+".no-invalid-block", "invalid-in-chain:"+other.Corrupt, "BestIndex(%d)=%v is an invalid block (%s)", h, idx, other.Describe())
			}
			e.Violationf(inv+".parent-linked", "index-not-ancestor", "BestIndex(%d)=%v is not the ancestor %v of tip %v", h, idx, n.Index(), tip)
		}
		if b, ok := s.cm.Block(idx.ID); ok {
			if b.ID() != idx.ID {
				e.Violationf(inv+".block-id", "block-id", "Block(%v) returned block %v", idx.ID, b.ID())
			}
			if h > 0 && b.ParentID != path[h-1].ID {
				e.Violationf(inv+".parent-linked", "parent", "block at height %d does not link to height %d", h, h-1)
			}
		}
		cs, ok := s.cm.State(idx.ID)
		if !ok {
			e.Violationf(inv+".state-missing", "state-missing", "State(%v) missing for best-chain block at height %d", idx.ID, h)
		}
		if !bytes.Equal(gen.StateBytes(cs), gen.StateBytes(n.L.State)) {
			e.Violationf(inv+".state-replay", "state-mismatch", "State of best-chain block %v differs from independent replay: %s", idx, stateDiff(cs, n.L.State))
		}
	}
	if idx, ok := s.cm.BestIndex(tip.Height + 1); ok {
		e.Violationf(inv+".index-beyond-tip", "index-beyond-tip", "BestIndex(%d)=%v exists above tip %v", tip.Height+1, idx, tip)
	}
	if !bytes.Equal(gen.StateBytes(ts), gen.StateBytes(tipNode.L.State)) {
		e.Violationf(inv+".state-replay", "tipstate-mismatch", "TipState differs from independent replay of the best chain to %v: %s", tip, stateDiff(ts, tipNode.L.State))
	}
	if s.cm.Tip() != tip {
		e.Violationf(inv+".tip-consistent", "tip-vs-tipstate", "Tip() %v != TipState().Index %v", s.cm.Tip(), tip)
	}
	return tipNode
}

// stateDiff names the fields in which two consensus states differ.
func stateDiff(a, b consensus.State) string {
	ja, _ := json.Marshal(a)
	jb, _ := json.Marshal(b)
	var ma, mb map[string]json.RawMessage
	json.Unmarshal(ja, &ma)
	json.Unmarshal(jb, &mb)
	var out []string
	for k, va := range ma {
		if !bytes.Equal(va, mb[k]) {
			out = append(out, fmt.Sprintf("%s: node=%.120s replay=%.120s", k, va, mb[k]))
		}
	}
	sort.Strings(out)
	return fmt.Sprint(out)
}
