package props

import (
	"bytes"
	"context"
	"errors"
	"fmt"
	"strings"

	"go.sia.tech/core/consensus"
	proto4 "go.sia.tech/core/rhp/v4"
	"go.sia.tech/core/types"
	rhp4 "go.sia.tech/coreutils/rhp/v4"
	"go.sia.tech/coreutils/wallet"

	"verif/gen"
	"verif/sim"
	"verif/simrhp"
)

type walletView struct {
	bal  wallet.Balance
	list string
}

func viewWallet(e *sim.Env, w *wallet.SingleAddressWallet) walletView {
	var v walletView
	e.Guard("C16.panic", "Balance/SpendableOutputs", func() {
		v.bal, _ = w.Balance()
		outs, _ := w.SpendableOutputs()
		ids := make([]string, len(outs))
		for i, o := range outs {
			ids[i] = o.ID.String()[:8]
		}
		sortStrings(ids)
		v.list = fmt.Sprint(ids)
	})
	return v
}

type c16Rig struct {
	*rhpRig
	hook     simrhp.Hook
	relation string
	contract *rhp4.ContractRevision // a contract for renew / refresh
	// leaveUnconfirmed: a successful formation is not followed by a block
	leaveUnconfirmed bool
	// hostWalletBehind: the host's wallet has not seen the newest blocks
	hostWalletBehind bool
}

var errInjectedDial = errors.New("verif: injected dial failure")

// c16 fault kinds: where and how an attempt is disturbed
var c16Faults = []string{"none", "dial-fails", "drop-request", "drop-host-inputs", "cut-after-host-inputs", "drop-renter-signatures", "corrupt-renter-contract-signature", "corrupt-renter-input-signature", "truncate-renter-signatures", "drop-final-response", "corrupt-host-inputs", "corrupt-final-set", "corrupt-host-contract-signature", "corrupt-host-renewal-signature", "final-set-without-renter-inputs", "host-answers-with-foreign-set"}

func (c *c16Rig) faultHook(kind string, armed *bool) simrhp.Hook {
	e := c.e
	return func(_ int, id types.Specifier, step int, st simrhp.Step, o proto4.Object, raw []byte) simrhp.Action {
		if !*armed || raw != nil {
			return simrhp.Pass
		}
		switch id {
		case proto4.RPCFormContractID, proto4.RPCRenewContractID, proto4.RPCRefreshContractID, proto4.RPCRefreshPartialID:
		default:
			return simrhp.Pass
		}
		fire := func(a simrhp.Action) simrhp.Action {
			*armed = false
			e.Fault("abort-" + kind)
			return a
		}
		switch {
		case kind == "drop-request" && step == 0:
			return fire(simrhp.Drop)
		case kind == "drop-host-inputs" && step == 1:
			return fire(simrhp.Drop)
		case kind == "cut-after-host-inputs" && step == 1:
			return fire(simrhp.CutAfter)
		case kind == "drop-renter-signatures" && step == 2:
			return fire(simrhp.Drop)
		case kind == "truncate-renter-signatures" && step == 2:
			return fire(simrhp.Truncate)
		case kind == "drop-final-response" && step == 3:
			return fire(simrhp.Drop)
		case kind == "corrupt-renter-contract-signature" && step == 2:
			switch m := o.(type) {
			case *proto4.RPCFormContractSecondResponse:
				m.RenterContractSignature[5] ^= 2
			case *proto4.RPCRenewContractSecondResponse:
				m.RenterContractSignature[5] ^= 2
			case *proto4.RPCRefreshContractSecondResponse:
				m.RenterContractSignature[5] ^= 2
			}
			return fire(simrhp.Pass)
		case kind == "corrupt-renter-input-signature" && step == 2:
			flip := func(ps []types.SatisfiedPolicy) {
				if len(ps) > 0 && len(ps[0].Signatures) > 0 {
					ps[0].Signatures[0][11] ^= 8
				}
			}
			switch m := o.(type) {
			case *proto4.RPCFormContractSecondResponse:
				flip(m.RenterSatisfiedPolicies)
			case *proto4.RPCRenewContractSecondResponse:
				flip(m.RenterSatisfiedPolicies)
			case *proto4.RPCRefreshContractSecondResponse:
				flip(m.RenterSatisfiedPolicies)
			}
			return fire(simrhp.Pass)
		case kind == "corrupt-host-inputs" && step == 1:
			drop := func(in *[]types.V2SiacoinInput) {
				if len(*in) > 0 {
					*in = (*in)[:len(*in)-1] // the host "funds" less than promised
				}
			}
			switch m := o.(type) {
			case *proto4.RPCFormContractResponse:
				drop(&m.HostInputs)
			case *proto4.RPCRenewContractResponse:
				drop(&m.HostInputs)
			case *proto4.RPCRefreshContractResponse:
				drop(&m.HostInputs)
			}
			return fire(simrhp.Pass)
		case kind == "host-answers-with-foreign-set" && step == 2:
			return fire(simrhp.Impersonate)
		case (kind == "corrupt-final-set" || kind == "final-set-without-renter-inputs") && step == 3:
			bump := func(set []types.V2Transaction) {
				if len(set) == 0 {
					return
				}
				t := &set[len(set)-1]
				if kind == "corrupt-final-set" {
					t.MinerFee = t.MinerFee.Add(types.NewCurrency64(1))
					return
				}
				// the host's final transaction no longer spends anything of the
				// renter's (as if funded by somebody else)
				var keep []types.V2SiacoinInput
				for _, in := range t.SiacoinInputs {
					if in.Parent.SiacoinOutput.Address != c.rw.Address() {
						keep = append(keep, in)
					}
				}
				t.SiacoinInputs = keep
			}
			switch m := o.(type) {
			case *proto4.RPCFormContractThirdResponse:
				bump(m.TransactionSet)
			case *proto4.RPCRenewContractThirdResponse:
				bump(m.TransactionSet)
			case *proto4.RPCRefreshContractThirdResponse:
				bump(m.TransactionSet)
			}
			return fire(simrhp.Pass)
		case (kind == "corrupt-host-contract-signature" || kind == "corrupt-host-renewal-signature") && step == 3:
			// the host's final transaction carries its signature(s): on the new
			// contract, and for renew / refresh also on the renewal itself
			flip := func(set []types.V2Transaction) bool {
				if len(set) == 0 {
					return false
				}
				t := &set[len(set)-1]
				if len(t.FileContracts) > 0 && kind == "corrupt-host-contract-signature" {
					t.FileContracts[0].HostSignature[e.Intn(64)] ^= 1 << uint(e.Intn(8))
					return true
				}
				for i := range t.FileContractResolutions {
					if r, ok := t.FileContractResolutions[i].Resolution.(*types.V2FileContractRenewal); ok {
						if kind == "corrupt-host-contract-signature" {
							r.NewContract.HostSignature[e.Intn(64)] ^= 1 << uint(e.Intn(8))
						} else {
							r.HostSignature[e.Intn(64)] ^= 1 << uint(e.Intn(8))
						}
						return true
					}
				}
				return false
			}
			ok := false
			switch m := o.(type) {
			case *proto4.RPCFormContractThirdResponse:
				ok = flip(m.TransactionSet)
			case *proto4.RPCRenewContractThirdResponse:
				ok = flip(m.TransactionSet)
			case *proto4.RPCRefreshContractThirdResponse:
				ok = flip(m.TransactionSet)
			}
			if !ok {
				return simrhp.Pass
			}
			return fire(simrhp.Pass)
		}
		return simrhp.Pass
	}
}

// attempt runs one form / renew / refresh with a fault and checks C16.
func (c *c16Rig) attempt(op, kind string) {
	e := c.e
	e.Step()
	hostBefore, renterBefore := viewWallet(e, c.hw), viewWallet(e, c.rw)
	n0 := len(c.contractor.calls)
	armed := kind != "none" && kind != "dial-fails"
	c.hook = c.faultHook(kind, &armed)
	dialAt := c.tr.Streams() + 1
	if kind == "dial-fails" {
		c.tr.FailDial = func(n int) error {
			if n == dialAt {
				e.Fault("abort-dial-fails")
				return errInjectedDial
			}
			return nil
		}
	}
	ctx := context.Background()
	cs := c.rs.cm.TipState()
	contractOnChain := true
	if op != "form" {
		_, contractOnChain = c.tree.ByID[c.s.cm.Tip().ID].L.V2FC[c.contract.ID]
	}
	var err error
	var got rhp4.ContractRevision
	var set rhp4.TransactionSet
	allowance, collateral := types.Siacoins(uint32(c.e.Range(200, 2000))), types.Siacoins(uint32(c.e.Range(100, 4000)))
	for proto4.MinRenterAllowance(c.prices, collateral).Cmp(types.Siacoins(20000)) > 0 {
		collateral = collateral.Div64(2)
	}
	if min := proto4.MinRenterAllowance(c.prices, collateral); allowance.Cmp(min) < 0 {
		allowance = min.Mul64(2)
	}
	e.Guard("C16.panic", "RPC "+op, func() {
		switch op {
		case "form":
			var res rhp4.RPCFormContractResult
			res, err = rhp4.RPCFormContract(ctx, c.tr, c.rs.cm, c.signer, cs, c.prices, c.hostKey.PublicKey(), c.hw.Address(), proto4.RPCFormContractParams{
				RenterPublicKey: c.renterKey.PublicKey(), RenterAddress: c.rw.Address(),
				Allowance: allowance, Collateral: collateral, ProofHeight: c.s.cm.Tip().Height + uint64(e.Range(20, 200)),
			})
			got, set = res.Contract, res.FormationSet
		case "renew":
			var res rhp4.RPCRenewContractResult
			res, err = rhp4.RPCRenewContract(ctx, c.tr, c.rs.cm, c.signer, cs, c.prices, c.hw.Address(), c.contract.Revision, proto4.RPCRenewContractParams{
				ContractID: c.contract.ID, Allowance: allowance, Collateral: collateral, ProofHeight: c.contract.Revision.ProofHeight + uint64(e.Range(1, 100)),
			})
			got, set = res.Contract, res.RenewalSet
		case "refresh-full":
			var res rhp4.RPCRefreshContractResult
			res, err = rhp4.RPCRefreshContractFullRollover(ctx, c.tr, c.rs.cm, c.signer, cs, c.prices, c.hw.Address(), c.contract.Revision, proto4.RPCRefreshContractParams{
				ContractID: c.contract.ID, Allowance: allowance, Collateral: collateral,
			})
			got, set = res.Contract, res.RenewalSet
		case "refresh-partial":
			var res rhp4.RPCRefreshContractResult
			res, err = rhp4.RPCRefreshContractPartialRollover(ctx, c.tr, c.rs.cm, c.signer, cs, c.prices, c.hw.Address(), c.contract.Revision, proto4.RPCRefreshContractParams{
				ContractID: c.contract.ID, Allowance: allowance, Collateral: collateral,
			})
			got, set = res.Contract, res.RenewalSet
		}
	})
	c.hook = nil
	c.tr.FailDial = nil
	waitQuiet()
	c.checkHandlerPanics(op + " (" + c.relation + ", " + kind + ")")
	hostRecorded := false
	for _, call := range c.contractor.calls[n0:] {
		if (call.method == "AddV2Contract" || call.method == "RenewV2Contract") && call.err == nil {
			hostRecorded = true
		}
	}
	e.Logf("%s relation=%s fault=%s -> renter err=%v, host recorded=%v", op, c.relation, kind, err != nil, hostRecorded)
	e.Shape(op, c.relation, kind, fmt.Sprint(err != nil), fmt.Sprint(hostRecorded))
	e.Nontrivial = true
	hostAfter, renterAfter := viewWallet(e, c.hw), viewWallet(e, c.rw)

	if err == nil {
		if c.hostWalletBehind {
			e.Probe("succeeded_with_host_wallet_behind")
		}
		// success: both hold the same fully signed contract; the set is usable
		if !hostRecorded {
			e.Violationf("C16.same-contract", op+":host-has-none", "%s succeeded for the renter but the host recorded no contract", op)
		}
		st, herr := c.hostState(got.ID)
		if herr != nil {
			e.Violationf("C16.same-contract", op+":host-missing", "%s succeeded but the host does not know contract %v: %v", op, got.ID, herr)
		}
		if !bytes.Equal(gen.Enc(st.Revision), gen.Enc(got.Revision)) {
			e.Violationf("C16.same-contract", op+":differs", "%s: the renter's and the host's contract differ", op)
		}
		sh := (consensus.State{}).ContractSigHash(got.Revision)
		if !got.Revision.RenterPublicKey.VerifyHash(sh, got.Revision.RenterSignature) || !got.Revision.HostPublicKey.VerifyHash(sh, got.Revision.HostSignature) {
			e.Violationf("C16.same-contract", op+":signatures", "%s returned a contract that is not signed by both parties", op)
		}
		// a fresh pool at the host's tip accepts the set, and mining it creates the contract
		tipNode := c.tree.ByID[c.s.cm.Tip().ID]
		fresh := (&linearTwin{net: c.net}).at(e, c.tree, tipNode)
		if _, perr := fresh.cm.AddV2PoolTransactions(set.Basis, set.Transactions); perr != nil {
			e.Violationf("C16.set-confirmable", op+":fresh-pool", "%s returned a transaction set a fresh pool rejects: %v", op, perr)
		}
		if op == "form" && c.leaveUnconfirmed {
			// nobody mines yet: the next renewal / refresh meets a contract the
			// host has recorded but whose formation is still in the pool
			c.leaveUnconfirmed = false
			c.contract = &got
			e.Fault("contract-left-unconfirmed")
			return
		}
		c.mine(1)
		if c.rs != c.s {
			c.relation = "same-tip"
		}
		tipNode = c.tree.ByID[c.s.cm.Tip().ID]
		el, ok := tipNode.L.V2FC[got.ID]
		if !ok {
			e.Violationf("C16.set-confirmable", op+":not-created", "after mining the pool the contract %v does not exist on chain", got.ID)
		}
		if !bytes.Equal(gen.Enc(el.V2FileContract), gen.Enc(got.Revision)) {
			e.Violationf("C16.set-confirmable", op+":chain-differs", "the contract created on chain differs from the one both parties signed")
		}
		if op == "form" && (!got.Revision.RenterOutput.Value.Equals(allowance) || !got.Revision.TotalCollateral.Equals(collateral)) {
			e.Violationf("C16.set-confirmable", op+":funding", "formed contract has allowance %v / collateral %v, agreed were %v / %v", got.Revision.RenterOutput.Value, got.Revision.TotalCollateral, allowance, collateral)
		}
		c.refreshPrices()
		c.contract = &got
		e.Probe("contract_" + op + "_confirmed")
		return
	}
	if hostRecorded {
		// the host completed the exchange (the renter lost the last message):
		// the host keeps its funds reserved for a transaction it broadcast
		if _, in := snapPool(e, "C16", c.s.cm).ids[lastTxnID(c.contractor.calls[n0:])]; !in {
			e.Violationf("C16.no-trace", op+":recorded-not-broadcast", "the host recorded a contract although the %s failed for the renter, and its transaction is not in the host's pool", op)
		}
		if kind == "none" {
			// nothing was lost on the way: a host that records the contract has
			// no reason to answer with an error
			e.Violationf("C16.no-trace", op+":recorded-yet-error:"+c.relation, "undisturbed %s (renter %s, host wallet behind its chain: %v) failed for the renter (%v) although the host recorded the contract and pooled its transaction", op, c.relation, c.hostWalletBehind, err)
		}
		e.Probe("host_completed_renter_failed")
		c.mine(1)
		if c.rs != c.s {
			c.relation = "same-tip"
		}
		c.refreshPrices()
		if op == "form" {
			// the renter can still learn about the contract later; not used further
		} else {
			c.contract = nil
		}
		return
	}
	// failed without a trace
	if hostAfter != hostBefore {
		e.Violationf("C16.no-trace", op+":host-funds:"+c.relation, "%s failed (%s, renter %s) without the host recording a contract, but the host wallet changed: spendable %v -> %v, outputs %s -> %s", op, kind, c.relation, hostBefore.bal.Spendable, hostAfter.bal.Spendable, hostBefore.list, hostAfter.list)
	}
	if renterAfter != renterBefore {
		e.Violationf("C16.no-trace", op+":renter-funds:"+kind, "%s failed (%s, renter %s) without the host recording a contract, but the renter wallet changed: spendable %v -> %v", op, kind, c.relation, renterBefore.bal.Spendable, renterAfter.bal.Spendable)
	}
	if kind == "none" && err != nil && (strings.Contains(err.Error(), "too close to proof window") || strings.Contains(err.Error(), "exceeds max collateral") || strings.Contains(err.Error(), "exceeds max duration") || strings.Contains(err.Error(), "proof height must be at least")) {
		// host policy: a contract within the minimum duration of its proof
		// height can no longer be refreshed or renewed (nor renewed to a proof
		// height the host, further ahead than the renter, finds too near), and
		// refreshes add up to more collateral than the host's settings allow. Proper refusals,
		// leaving no trace (checked above).
		e.Probe("refused_by_host_policy")
		c.contract = nil
		return
	}
	if op != "form" && !contractOnChain {
		// the host cannot renew what is not on chain yet: a proper refusal,
		// leaving no trace (checked above). The contract gets confirmed now.
		e.Probe("refused_contract_unconfirmed")
		c.mine(1)
		if c.rs != c.s && c.rs.cm.Tip() == c.s.cm.Tip() {
			c.relation = "same-tip"
		}
		c.refreshPrices()
		return
	}
	if c.hostWalletBehind {
		// the host works from its wallet's basis; a renter input younger than
		// that cannot be expressed there and the host refuses. The property asks
		// for a confirmable contract or no trace (checked above), not for success.
		e.Probe("failed_with_host_wallet_behind")
		return
	}
	if kind == "none" && !strings.HasPrefix(c.relation, "unknown-fork") && !strings.HasPrefix(c.relation, "stale-fork") {
		e.Violationf("C16.honest-rpc", op+":"+c.relation, "undisturbed %s (renter %s) failed: %v", op, c.relation, err)
	}
}

// thirdPartyPayment builds a payment that involves neither wallet.
func (c *c16Rig) thirdPartyPayment() (types.V2Transaction, bool) {
	p := snapPool(c.e, "C16", c.s.cm)
	for try := 0; try < 8; try++ {
		tb := gen.NewTxBuilder(c.e, c.tip.L)
		tb.Adopt(p.v1, p.v2)
		txn := types.V2Transaction{SiacoinOutputs: []types.SiacoinOutput{{Address: types.VoidAddress, Value: types.Siacoins(1)}}}
		if !tb.FundV2(&txn, types.Siacoins(1)) {
			continue
		}
		ok := true
		for _, in := range txn.SiacoinInputs {
			if a := in.Parent.SiacoinOutput.Address; a == c.hw.Address() || a == c.rw.Address() {
				ok = false
			}
		}
		if ok {
			tb.SignV2(&txn)
			return txn, true
		}
	}
	return types.V2Transaction{}, false
}

func lastTxnID(calls []contractorCall) types.TransactionID {
	for i := len(calls) - 1; i >= 0; i-- {
		if calls[i].set != nil && len(calls[i].set.Transactions) > 0 {
			t := calls[i].set.Transactions[len(calls[i].set.Transactions)-1]
			return t.ID()
		}
	}
	return types.TransactionID{}
}

func sortStrings(s []string) {
	for i := range s {
		for j := i + 1; j < len(s); j++ {
			if s[j] < s[i] {
				s[i], s[j] = s[j], s[i]
			}
		}
	}
}

func runC16(e *sim.Env) {
	c := &c16Rig{}
	two := e.Chance(2, 3)
	c.rhpRig = newRHPRigN(e, "C16", simrhp.TypedRelayAnswering(func(n int, id types.Specifier, step int, st simrhp.Step, o proto4.Object, raw []byte) simrhp.Action {
		if c.hook != nil {
			return c.hook(n, id, step, st, o, raw)
		}
		return simrhp.Pass
	}, func(n int, id types.Specifier, step int, renterMsg proto4.Object) proto4.Object {
		// "host-answers-with-foreign-set": a host that takes the renter's
		// signatures and answers with a final set that is not the agreed
		// transaction and spends nothing of the renter's (it records and
		// broadcasts nothing)
		// (shaped like the real thing - one contract, or one renewal - so that
		// the renter gets as far as comparing it with its own transaction)
		formed := []types.V2Transaction{{MinerFee: types.NewCurrency64(1), FileContracts: []types.V2FileContract{{}}}}
		renewed := []types.V2Transaction{{MinerFee: types.NewCurrency64(1), FileContractResolutions: []types.V2FileContractResolution{{Resolution: &types.V2FileContractRenewal{}}}}}
		switch renterMsg.(type) {
		case *proto4.RPCFormContractSecondResponse:
			return &proto4.RPCFormContractThirdResponse{Basis: c.s.cm.Tip(), TransactionSet: formed}
		case *proto4.RPCRenewContractSecondResponse:
			return &proto4.RPCRenewContractThirdResponse{Basis: c.s.cm.Tip(), TransactionSet: renewed}
		case *proto4.RPCRefreshContractSecondResponse:
			return &proto4.RPCRefreshContractThirdResponse{Basis: c.s.cm.Tip(), TransactionSet: renewed}
		}
		return nil
	}), two)
	c.relation = "same-tip"
	if two {
		base := c.tree.ByID[c.s.cm.Tip().ID]
		bo := gen.BlockOpts{Now: c.now, Miner: types.VoidAddress}
		switch e.Pick(1, 2, 1, 1) {
		case 1: // the renter is behind by k blocks
			c.relation = "renter-behind"
			x := base
			for i, k := 0, e.Range(1, 10); i < k; i++ {
				x = c.tree.Extend(e, x, bo)
				c.s.cm.AddBlocks([]types.Block{x.Block})
			}
		case 2: // the renter sits on a fork the host has seen and left
			c.relation = "stale-fork"
			f := base
			for i, k := 0, e.Range(1, 4); i < k; i++ {
				f = c.tree.Extend(e, f, bo)
				c.rs.cm.AddBlocks([]types.Block{f.Block})
				c.s.cm.AddBlocks([]types.Block{f.Block})
			}
			x := base
			for i := 0; i < int(f.Height-base.Height)+2; i++ {
				x = c.tree.Extend(e, x, bo)
			}
			c.s.cm.AddBlocks(blocksOf(x.PathFromGenesis()[1:]))
		case 3: // the renter sits on a fork the host never saw
			c.relation = "unknown-fork"
			f := base
			for i, k := 0, e.Range(1, 4); i < k; i++ {
				f = c.tree.Extend(e, f, bo)
				c.rs.cm.AddBlocks([]types.Block{f.Block})
			}
			x := base
			for i := 0; i < 2; i++ {
				x = c.tree.Extend(e, x, bo)
				c.s.cm.AddBlocks([]types.Block{x.Block})
			}
		}
		c.syncAll()
		c.refreshPrices()
	}
	// unconfirmed parents: the renter first moves most of its money inside its own pool
	if e.Chance(1, 3) {
		sp, _ := c.rw.SpendableOutputs()
		var total types.Currency
		for _, o := range sp {
			total = total.Add(o.SiacoinOutput.Value)
		}
		if !total.IsZero() {
			txn := types.V2Transaction{SiacoinOutputs: []types.SiacoinOutput{{Address: c.rw.Address(), Value: total}}}
			if basis, toSign, err := c.rw.FundV2Transaction(&txn, total, false); err == nil {
				c.rw.SignV2Inputs(&txn, toSign)
				if _, err := c.rs.cm.AddV2PoolTransactions(basis, []types.V2Transaction{txn}); err == nil {
					e.Probe("renter_funds_unconfirmed")
					c.relation += "+unconfirmed-parents"
				} else {
					c.rw.ReleaseInputs(nil, []types.V2Transaction{txn})
				}
			}
		}
	}
	e.Shape("relation", c.relation)
	attempts := e.Range(3, 8)
	for i := 0; i < attempts; i++ {
		op := "form"
		pending := false
		if c.contract != nil {
			_, onChain := c.tree.ByID[c.s.cm.Tip().ID].L.V2FC[c.contract.ID]
			pending = !onChain
		}
		if c.contract != nil && (e.Chance(2, 3) || pending) {
			op = []string{"renew", "refresh-full", "refresh-partial"}[e.Intn(3)]
			if c.rs != c.s && c.relation == "same-tip" && e.Chance(1, 3) {
				// the renter wanders off onto a fork the host never sees: the
				// renewal of a confirmed contract now comes with a basis the host
				// cannot update from
				f := c.tree.ByID[c.rs.cm.Tip().ID]
				for j, k := 0, e.Range(1, 3); j < k; j++ {
					f = c.tree.Extend(e, f, gen.BlockOpts{Now: c.now, Miner: types.VoidAddress})
					c.rs.cm.AddBlocks([]types.Block{f.Block})
				}
				c.syncAll()
				c.relation = "unknown-fork-late"
				e.Fault("renter-leaves-for-unknown-fork")
			}
		}
		if op != "form" && c.rs != c.s && c.relation == "same-tip" && e.Chance(1, 3) {
			// the host's node moves on and the renter's has not heard yet: the
			// renewal of a confirmed contract starts from a basis behind the host's
			x := c.tree.ByID[c.s.cm.Tip().ID]
			for j, k := 0, e.Range(1, 5); j < k; j++ {
				x = c.tree.Extend(e, x, gen.BlockOpts{Now: c.now, Miner: types.VoidAddress})
				c.s.cm.AddBlocks([]types.Block{x.Block})
			}
			c.syncAll()
			c.relation = "renter-behind"
			e.Fault("renter-falls-behind")
		}
		if op == "form" && i < attempts-1 && e.Chance(1, 5) {
			c.leaveUnconfirmed = true
		}
		if c.relation == "same-tip" && e.Chance(1, 5) {
			// the host's wallet has not been told about the newest blocks yet
			// (its chain manager has): what it funds comes with an older basis.
			// The blocks are not empty (a payment between two bystanders), so
			// that the proofs of older elements really change.
			for j, k := 0, e.Range(1, 3); j < k; j++ {
				if txn, ok := c.thirdPartyPayment(); ok {
					if _, err := c.s.cm.AddV2PoolTransactions(c.tip.Index(), []types.V2Transaction{txn}); err == nil {
						e.Probe("bystander_payment_pooled")
					} else {
						e.Logf("bystander payment rejected: %v", err)
						e.Probe("bystander_payment_rejected")
					}
				} else {
					e.Probe("no_bystander_funds")
				}
				c.mineOpt(1, false)
			}
			c.hostWalletBehind = true
			e.Fault("host-wallet-behind-its-chain")
		}
		kind := c16Faults[e.Pick(3, 1, 1, 1, 1, 1, 1, 1, 1, 1, 1, 1, 1, 1, 1, 1)]
		c.attempt(op, kind)
		c.leaveUnconfirmed = false
		c.hostWalletBehind = false
		c.syncAll()
		if op != "form" && c.contract != nil && e.Chance(1, 2) {
			// renewed contracts cannot be renewed again from the old revision
			c.contract = nil
		}
	}
	// repeated failures must not have eaten anyone's funds: one more undisturbed formation works
	if c.relation == "same-tip" || c.relation == "renter-behind" {
		c.attempt("form", "none")
	}
}

var _ = sim.NewEnv

func init() {
	register(&Prop{
		ID: "C16", Run: runC16, Quick: 1500, Thorough: 40000, Level: "fault_enumeration",
		Rule:        "one run = a drawn basis relation between renter and host node (shared node; two nodes at the same tip; renter behind by 1-10 blocks; renter on a fork the host has seen and left; renter on a fork the host never saw - from the start, or only after a contract was formed and confirmed, so that renewals and refreshes meet it too; the host's node moving ahead of the renter's only after a contract was confirmed; a formed contract left unconfirmed (nobody mines) before the next renewal / refresh; the host's wallet 1-4 blocks behind the host's own chain manager; optionally the renter's funds are unconfirmed outputs with pooled parents) and 3-8 form / renew / refresh (full, partial) attempts through the real client and server, each disturbed at one point of the exchange {none, dial fails, request dropped, host inputs dropped, stream cut after host inputs, renter signatures dropped / truncated mid-message, renter contract signature corrupted, renter input signature corrupted, final response dropped after the host recorded the contract, host inputs falsified, final set falsified (fee changed; the renter's inputs taken out), a host that takes the renter's signatures and answers with a foreign transaction while recording nothing, the host's signature on the new contract or on the renewal corrupted in its final transaction}; oracles: success => renter and host hold the same doubly signed contract, the returned set is accepted by a fresh pool at the host's tip and, mined, creates exactly that contract with the agreed funding; failure => either the host completed the exchange (contract recorded AND its transaction pooled) or nobody keeps a trace: Balance and SpendableOutputs of BOTH wallets are identical to before; a final undisturbed formation must still succeed; distinct = (op, relation, fault, outcome) traces",
		Real:        []string{"rhp4.Server (form/renew/refresh handlers)", "rhp4 RPCFormContract / RPCRenewContract / RPCRefreshContract* client", "wallet.SingleAddressWallet x2 (reservations)", "chain.Manager x1-2", "testutil.EphemeralContractor behind a recording wrapper"},
		Stub:        []string{"transport: simrhp in-memory streams with typed relay and dial failures", "disk: simdisk.DB"},
		Assumptions: []string{"renew / refresh attempts are only issued when renter and host share a node (the contract element must be known to both)"},
	})
}
