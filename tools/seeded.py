#!/usr/bin/env python3
"""Seeded-regression matrix.

  tools/seeded.py ingest <ID> <outdir> [wave]  copy a sub-agent's m<k>.* files to seeded/<ID>-m<k>/
  tools/seeded.py run [<name> ...] [--tier quick] [--runs N]
        apply each seeded patch to /repo, run the property's check, undo the patch,
        and write seeded/RESULTS.json (+ the table for DESIGN.md on stdout)
"""
import json, os, shutil, subprocess, sys, glob, time

ROOT = os.path.dirname(os.path.dirname(os.path.abspath(__file__)))
SEEDED = os.path.join(ROOT, 'seeded')

def ingest(pid, out, wave=None):
    for meta in sorted(glob.glob(os.path.join(out, 'm*_meta.json'))):
        k = os.path.basename(meta).split('_')[0]
        d = os.path.join(SEEDED, f'{pid}-w{wave}{k}' if wave else f'{pid}-{k}')
        os.makedirs(d, exist_ok=True)
        shutil.copy(os.path.join(out, f'{k}.diff'), os.path.join(d, 'patch.diff'))
        m = json.load(open(meta))
        m['property'] = pid
        if wave:
            m['wave'] = int(wave)
        json.dump(m, open(os.path.join(d, 'meta.json'), 'w'), indent=1)
        dd = os.path.join(d, 'demonstration')
        os.makedirs(dd, exist_ok=True)
        for f in glob.glob(os.path.join(out, f'{k}_*')):
            if f.endswith('_meta.json'):
                continue
            dst = os.path.basename(f)
            if dst.endswith('_test.go'):
                dst += '.txt'  # keep it out of any go build
            if os.path.getsize(f) > 200_000:
                continue
            shutil.copy(f, os.path.join(dd, dst))
        print('ingested', d)

def clean_repo():
    subprocess.run(['git', '-C', '/repo', 'checkout', '--', '.'], check=True)
    st = subprocess.run(['git', '-C', '/repo', 'status', '--porcelain'], capture_output=True, text=True).stdout
    if st.strip():
        print('WARNING: /repo not clean:', st)

def run(names, tier, runs, extra_props):
    res_path = os.path.join(SEEDED, 'RESULTS.json')
    results = json.load(open(res_path)) if os.path.exists(res_path) else {}
    if not names:
        names = sorted(n for n in os.listdir(SEEDED) if os.path.isdir(os.path.join(SEEDED, n)))
    for name in names:
        d = os.path.join(SEEDED, name)
        meta = json.load(open(os.path.join(d, 'meta.json')))
        pid = meta['property']
        clean_repo()
        r = subprocess.run(['git', '-C', '/repo', 'apply', os.path.join(d, 'patch.diff')], capture_output=True, text=True)
        if r.returncode != 0:
            print(name, 'PATCH DOES NOT APPLY', r.stderr)
            results[name] = {'property': pid, 'applies': False}
            continue
        entry = {'property': pid, 'applies': True, 'summary': meta.get('summary', ''), 'checks': {}}
        try:
            for p in [pid] + extra_props:
                cmd = [os.path.join(ROOT, 'check.sh'), p, tier]
                if runs:
                    cmd += ['-runs', str(runs)]
                env = dict(os.environ, VERIF_EVIDENCE_DIR='/tmp/verif-seeded-evidence')
                t0 = time.time()
                o = subprocess.run(cmd, capture_output=True, text=True, env=env)
                lines = [l for l in o.stdout.splitlines() if l.startswith(('violated', 'worker process died', 'data race', 'a run of seed'))]
                entry['checks'][p] = {'exit': o.returncode, 'wall_s': round(time.time() - t0, 1), 'tier': tier,
                                      'violations': [l[:300] for l in lines[:6]]}
                print(f'{name}: {p} {tier} exit={o.returncode} ({len(lines)} violation kinds)')
        finally:
            clean_repo()
        entry['caught'] = any(c['exit'] == 1 for c in entry['checks'].values())
        results[name] = entry
        json.dump(results, open(res_path, 'w'), indent=1, sort_keys=True)
    shutil.rmtree('/tmp/verif-seeded-evidence', ignore_errors=True)
    for f in glob.glob(os.path.join(ROOT, 'replays', '*.json')):
        pass
    print()
    for name in sorted(results):
        e = results[name]
        print(f"| {name} | {e.get('summary','')[:110]} | {'caught' if e.get('caught') else 'MISSED'} |")

if __name__ == '__main__':
    if sys.argv[1] == 'ingest':
        ingest(sys.argv[2], sys.argv[3], sys.argv[4] if len(sys.argv) > 4 else None)
    elif sys.argv[1] == 'run':
        args = sys.argv[2:]
        tier, runs, extra, names = 'quick', 0, [], []
        i = 0
        while i < len(args):
            if args[i] == '--tier':
                tier = args[i + 1]; i += 2
            elif args[i] == '--runs':
                runs = int(args[i + 1]); i += 2
            elif args[i] == '--also':
                extra = args[i + 1].split(','); i += 2
            else:
                names.append(args[i]); i += 1
        run(names, tier, runs, extra)
