#!/bin/bash
# Verify a sub-agent's seeded change in its scratch worktree and ingest it.
#   tools/wave_ingest.sh <Cxx> <worktree> <outdir> <pkg> <DemoTestName> <wave> <k> "<summary>" "<needs>"
# The demonstration must FAIL with the change and PASS without it, and the
# package's suite (demonstration skipped) must pass with the change; only then
# is the change copied to /verif/seeded/<Cxx>-w<wave><k>/. The worktree is removed.
set -u
. /verif/env.sh
id=$1; w=$2; out=$3; pkg=$4; run=$5; wave=$6; k=$7; summary=$8; needs=$9
cd "$w" || exit 2
demo=$(ls "$out"/*_test.go | head -1)
[ -f "$pkg/$(basename "$demo")" ] || cp "$demo" "$pkg/"
git diff --quiet && git apply "$out/patch.diff"
if $GO test -vet=off -count=1 -run "^$run\$" ./$pkg/ >/tmp/wi.$$ 2>&1; then echo "REJECT: demo passes with the change"; exit 1; fi
tail -3 /tmp/wi.$$
if ! $GO test -vet=off -count=1 -skip "^$run\$" ./$pkg/ >/tmp/wi.$$ 2>&1; then echo "REJECT: suite fails with the change"; tail /tmp/wi.$$; exit 1; fi
git apply -R "$out/patch.diff" || exit 2
if ! $GO test -vet=off -count=1 -run "^$run\$" ./$pkg/ >/tmp/wi.$$ 2>&1; then echo "REJECT: demo fails without the change"; tail /tmp/wi.$$; exit 1; fi
rm -f /tmp/wi.$$
d=/tmp/ing-$id-$k; rm -rf $d; mkdir -p $d
cp "$out/patch.diff" $d/$k.diff; cp "$demo" $d/${k}_$(basename "$demo"); cp "$out/notes.txt" $d/${k}_notes.txt 2>/dev/null
python3 - "$d/${k}_meta.json" "$summary" "$needs" "$pkg" "$run" <<'E'
import json,sys
p,s,n,pkg,run=sys.argv[1:6]
json.dump({"summary":s,"needs_to_manifest":n,"what_i_ran":f"tools/wave_ingest.sh in the sub-agent's scratch worktree: go test -run {run} ./{pkg}/ FAILS with the change and PASSES after git apply -R; go test -skip {run} ./{pkg}/ passes with the change; then python3 tools/seeded.py run <name>","suite_passes":True,"demo_fails_on_changed":True,"demo_passes_on_unchanged":True}, open(p,"w"), indent=1)
E
cd /verif && python3 tools/seeded.py ingest $id $d $wave && rm -rf $d
git -C /repo worktree remove --force "$w"
