#!/usr/bin/env python3-vt
import json, sys, glob, jsonschema
ok = True
try:
    jsonschema.validate(json.load(open('/verif/MANIFEST.json')), json.load(open('/root/.vp/MANIFEST.schema.json')))
    print('MANIFEST.json valid')
except Exception as e:
    ok = False; print('MANIFEST.json INVALID:', e)
sch = json.load(open('/root/.vp/EVIDENCE.schema.json'))
for f in sorted(glob.glob('/verif/evidence/*.json')):
    try:
        jsonschema.validate(json.load(open(f)), sch); print(f, 'valid')
    except Exception as e:
        ok = False; print(f, 'INVALID:', str(e)[:300])
sys.exit(0 if ok else 1)
