// Command instrument rewrites a scratch copy of coreutils for the lock-yield
// flavour: in the non-test files of the given package directories every
// sync.Mutex / sync.RWMutex type becomes vsync.Mutex / vsync.RWMutex.
//
//	instrument <scratch-repo-root> <vsync.go source> <pkgdir>...
package main

import (
	"bytes"
	"fmt"
	"go/ast"
	"go/format"
	"go/parser"
	"go/token"
	"os"
	"path/filepath"
	"strconv"
	"strings"
)

const vsyncPath = "go.sia.tech/coreutils/vsync"

func main() {
	if len(os.Args) < 4 {
		fmt.Fprintln(os.Stderr, "usage: instrument <repo> <vsync source> <pkgdir>...")
		os.Exit(2)
	}
	root, src := os.Args[1], os.Args[2]
	data, err := os.ReadFile(src)
	check(err)
	check(os.MkdirAll(filepath.Join(root, "vsync"), 0o755))
	check(os.WriteFile(filepath.Join(root, "vsync", "vsync.go"), data, 0o644))
	rewritten := 0
	for _, dir := range os.Args[3:] {
		entries, err := os.ReadDir(filepath.Join(root, dir))
		check(err)
		for _, en := range entries {
			name := en.Name()
			if en.IsDir() || !strings.HasSuffix(name, ".go") || strings.HasSuffix(name, "_test.go") {
				continue
			}
			if rewrite(filepath.Join(root, dir, name)) {
				rewritten++
			}
		}
	}
	fmt.Printf("instrument: %d files rewritten\n", rewritten)
}

func check(err error) {
	if err != nil {
		fmt.Fprintln(os.Stderr, "instrument:", err)
		os.Exit(2)
	}
}

func rewrite(path string) bool {
	fset := token.NewFileSet()
	f, err := parser.ParseFile(fset, path, nil, parser.ParseComments)
	check(err)
	// the local name of package sync in this file
	syncName := ""
	for _, im := range f.Imports {
		if p, _ := strconv.Unquote(im.Path.Value); p == "sync" {
			syncName = "sync"
			if im.Name != nil {
				syncName = im.Name.Name
			}
		}
	}
	if syncName == "" {
		return false
	}
	changed, otherUse := false, false
	ast.Inspect(f, func(n ast.Node) bool {
		sel, ok := n.(*ast.SelectorExpr)
		if !ok {
			return true
		}
		id, ok := sel.X.(*ast.Ident)
		if !ok || id.Name != syncName || id.Obj != nil {
			return true
		}
		switch sel.Sel.Name {
		case "Mutex", "RWMutex":
			id.Name = "vsync"
			changed = true
		default:
			otherUse = true
		}
		return true
	})
	if !changed {
		return false
	}
	// imports: add vsync, drop sync if nothing else uses it
	for _, decl := range f.Decls {
		gd, ok := decl.(*ast.GenDecl)
		if !ok || gd.Tok != token.IMPORT {
			continue
		}
		var specs []ast.Spec
		for _, sp := range gd.Specs {
			is := sp.(*ast.ImportSpec)
			if p, _ := strconv.Unquote(is.Path.Value); p == "sync" && !otherUse {
				continue
			}
			specs = append(specs, sp)
		}
		specs = append(specs, &ast.ImportSpec{Path: &ast.BasicLit{Kind: token.STRING, Value: strconv.Quote(vsyncPath)}})
		gd.Specs = specs
		if gd.Lparen == token.NoPos {
			gd.Lparen = gd.Pos()
			gd.Rparen = gd.End()
		}
		break
	}
	var buf bytes.Buffer
	check(format.Node(&buf, fset, f))
	out, err := format.Source(buf.Bytes())
	check(err)
	check(os.WriteFile(path, out, 0o644))
	return true
}
