#!/usr/bin/env python3
"""Writes MANIFEST.json from tools/manifest_checks.json (claimed checks) so the
file stays schema-valid while checks are added one by one."""
import json, os
root = os.path.dirname(os.path.dirname(os.path.abspath(__file__)))
spec = json.load(open(os.path.join(root, 'tools', 'manifest_checks.json')))
checks = []
for c in spec['checks']:
    pid = c['id']
    checks.append({
        "property_id": pid,
        "quick_cmd": "./check.sh %s quick" % pid,
        "thorough_cmd": "./check.sh %s thorough" % pid,
        "evidence_file": "/verif/evidence/%s.json" % pid,
        "replay_cmd_template": "./check.sh %s quick --replay {path}" % pid,
        "engine": "simcheck",
        "level_claimed": {"category": c['level'], "text": c['text'], "design_ref": c.get('design_ref', 'DESIGN.md section 6, ' + pid)},
        "level_note": c['note'],
        "technique": c['technique'],
    })
m = {
    "version": 1,
    "setup_cmd": "./setup.sh",
    "hooks": spec['hooks'],
    "engines": [{
        "name": "simcheck",
        "path": "/verif/cmd/simcheck",
        "serves_properties": [c['id'] for c in spec['checks']],
        "kind_free_text": "deterministic simulation with fault injection: seeded single-tape chooser, testing/synctest fake clock, simulated disk/network/RHP transport, reference ledger built on go.sia.tech/core, tape-level ddmin minimisation and fresh-process replay",
    }],
    "checks": checks,
    "notes": spec.get('notes', ''),
    "not_applicable": spec['not_applicable'],
}
json.dump(m, open(os.path.join(root, 'MANIFEST.json'), 'w'), indent=1)
print("wrote MANIFEST.json with", len(checks), "checks;", len(m['not_applicable']), "not applicable")
