#!/bin/sh
# runs every registered quick check on the current tree; prints one line per check
cd "$(dirname "$0")/.." || exit 2
rc=0
for id in C01 C02 C03 C04 C05 C06 C07 C08 C09 C10 C11 C12 C13 C14 C15 C16 C17 C18 C19; do
	start=$(date +%s)
	out=$(./check.sh $id "${1:-quick}" 2>&1); code=$?
	echo "$id exit=$code $(( $(date +%s) - start ))s $(echo "$out" | tail -1)"
	echo "$out" | grep "^VIOLATION\|^KNOWN-FINDING\|harness trouble" | head -5
	[ $code -ne 0 ] && rc=1
done
exit $rc
