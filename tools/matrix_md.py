#!/usr/bin/env python3
"""Writes seeded/MATRIX.md from seeded/RESULTS.json."""
import json, os
ROOT = os.path.dirname(os.path.dirname(os.path.abspath(__file__)))
r = json.load(open(os.path.join(ROOT, 'seeded', 'RESULTS.json')))
lines = ['# Seeded regressions: results on the final tree', '',
         'Each change compiles and passes the repository\'s test suite; `caught` = the property\'s quick check exits 1 with a VIOLATION line while the change is applied to /repo.', '',
         '| change | what was changed | check | result | first violation |', '|---|---|---|---|---|']
caught = 0
for name in sorted(r):
    e = r[name]
    pid = e['property']
    c = e.get('checks', {}).get(pid, {})
    v = (c.get('violations') or [''])[0]
    v = v.replace('|', '/')[:160]
    res = 'caught' if e.get('caught') else 'MISSED'
    caught += 1 if e.get('caught') else 0
    lines.append(f"| {name} | {e.get('summary','').replace('|','/')[:200]} | {pid} {c.get('tier','')} ({c.get('wall_s','?')} s) | {res} | {v} |")
lines += ['', f'{caught} of {len(r)} caught.']
open(os.path.join(ROOT, 'seeded', 'MATRIX.md'), 'w').write('\n'.join(lines) + '\n')
print(f'{caught} of {len(r)} caught')
