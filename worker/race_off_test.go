//go:build !race

package worker

const raceBuild = false
