// Package worker is the process that executes simulated runs. It is a test
// binary because testing/synctest needs a *testing.T; it is never run by
// `go test ./...` for its own sake. The runner (cmd/simcheck) starts many of
// these with GOMAXPROCS=1 and disjoint seed ranges.
//
// Environment:
//
//	VERIF_PROP     property id (C01 …)
//	VERIF_FROM     first run index
//	VERIF_COUNT    number of runs
//	VERIF_SEED     seed base (default 1)
//	VERIF_OUT      file to append JSON records to (default stdout)
//	VERIF_REPLAY   replay file: execute exactly that tape, verbose
//	VERIF_MINIMISE 0 to skip in-worker minimisation
//	VERIF_VERBOSE  1: keep full traces
//	VERIF_DEADLINE unix seconds (real clock) after which no new run is started
package worker

import (
	"bufio"
	"encoding/json"
	"fmt"
	"os"
	"runtime"
	"strconv"
	"strings"
	"sync/atomic"
	"testing"
	"testing/synctest"
	"time"

	"lukechampine.com/frand"

	"verif/props"
	"verif/sim"
)

func envInt(name string, def int64) int64 {
	if v := os.Getenv(name); v != "" {
		n, err := strconv.ParseInt(v, 10, 64)
		if err == nil {
			return n
		}
	}
	return def
}

// splitmix64 derives the per-run seed from (seed base, run index).
func splitmix(base, idx uint64) uint64 {
	z := base*0x9e3779b97f4a7c15 + idx*0xbf58476d1ce4e5b9 + 0x94d049bb133111eb
	z = (z ^ (z >> 30)) * 0xbf58476d1ce4e5b9
	z = (z ^ (z >> 27)) * 0x94d049bb133111eb
	return z ^ (z >> 31)
}

// the run in progress, for the real-time watchdog
var (
	runStarted atomic.Int64
	runSeed    atomic.Uint64
)

// startRunWatchdog ends the process when one run burns more real time than
// VERIF_RUN_TIMEOUT seconds (default 60): the runner counts that as harness
// trouble and carries on after the seed. Runs are fake-clock simulations; one
// that needs a minute of CPU has degenerated (e.g. a relay storm between
// simulated nodes) and would otherwise hold its worker until the batch budget.
func startRunWatchdog(def int) {
	if def <= 0 {
		def = 60
	}
	limit := envInt("VERIF_RUN_TIMEOUT", int64(def))
	go func() {
		for {
			time.Sleep(time.Second)
			if st := runStarted.Load(); st != 0 && time.Now().Unix()-st > limit {
				fmt.Fprintf(os.Stderr, "WATCHDOG: the run of seed %d exceeded %d s of real time\n", runSeed.Load(), limit)
				// where is everybody? (the runner decides from the run goroutine's
				// stack whether the system under test is stuck or the harness is busy)
				buf := make([]byte, 8<<20)
				n := runtime.Stack(buf, true)
				fmt.Fprintf(os.Stderr, "WATCHDOG-STACKS-BEGIN\n%s\nWATCHDOG-STACKS-END\n", buf[:n])
				os.Exit(3)
			}
		}
	}()
}

// runOnce executes one run inside a fresh synctest bubble.
func runOnce(t *testing.T, p *props.Prop, env *sim.Env) (rec sim.Record) {
	runSeed.Store(env.Seed)
	runStarted.Store(time.Now().Unix())
	defer runStarted.Store(0)
	wallStart := time.Now() // real clock: we are outside the bubble
	done := false
	func() {
		defer func() {
			if r := recover(); r != nil && !done {
				// end-of-bubble deadlock (goroutines left blocked) or a panic
				// that escaped the run
				rec.Property, rec.Seed = env.Property, env.Seed
				rec.Infra = fmt.Sprintf("bubble ended abnormally: %v", r)
			}
		}()
		bubble := func(t *testing.T) {
			synctest.Test(t, func(t *testing.T) {
				frand.Reseed(env.Seed)
				simStart := time.Now()
				rec = sim.Execute(env, p.Run)
				rec.SimMS = time.Since(simStart).Milliseconds()
				done = true
			})
		}
		if raceBuild {
			t.Run(fmt.Sprintf("seed-%d", env.Seed), bubble)
		} else {
			bubble(t)
		}
	}()
	rec.WallUS = time.Since(wallStart).Microseconds()
	rec.Flavour = os.Getenv("VERIF_FLAVOUR")
	return rec
}

type replayFile struct {
	Property string   `json:"property"`
	Seed     uint64   `json:"seed"`
	Index    uint64   `json:"index"`
	Tape     []uint32 `json:"tape"`
	UseSeed  bool     `json:"use_seed"` // ignore the tape, re-run from the seed
}

func TestWorker(t *testing.T) {
	id := os.Getenv("VERIF_PROP")
	if id == "" {
		t.Skip("VERIF_PROP not set")
	}
	p, ok := props.Registry[id]
	if !ok {
		t.Fatalf("unknown property %q", id)
	}
	out := bufio.NewWriter(os.Stdout)
	if f := os.Getenv("VERIF_OUT"); f != "" {
		fh, err := os.OpenFile(f, os.O_CREATE|os.O_APPEND|os.O_WRONLY, 0o644)
		if err != nil {
			t.Fatal(err)
		}
		defer fh.Close()
		out = bufio.NewWriter(fh)
	}
	emit := func(s string) {
		out.WriteString(s)
		out.WriteString("\n")
		out.Flush()
	}
	verbose := os.Getenv("VERIF_VERBOSE") == "1"
	startRunWatchdog(p.RunTimeout)

	if rf := os.Getenv("VERIF_REPLAY"); rf != "" {
		data, err := os.ReadFile(rf)
		if err != nil {
			t.Fatal(err)
		}
		var r replayFile
		if err := json.Unmarshal(data, &r); err != nil {
			t.Fatal(err)
		}
		var env *sim.Env
		if r.UseSeed {
			env = sim.NewEnv(id, r.Seed)
		} else {
			env = sim.NewReplayEnv(id, r.Seed, r.Tape)
		}
		env.Verbose = true
		env.Index = r.Index
		emit(fmt.Sprintf("START %d", r.Seed))
		rec := runOnce(t, p, env)
		emit("REC " + rec.JSON())
		return
	}

	if rs := os.Getenv("VERIF_RUNSEED"); rs != "" {
		seed, _ := strconv.ParseUint(rs, 10, 64)
		env := sim.NewEnv(id, seed)
		env.Verbose = true
		rec := runOnce(t, p, env)
		for _, l := range rec.Trace {
			emit("TRACE " + l)
		}
		rec.Trace = nil
		emit("REC " + rec.JSON())
		return
	}
	base := uint64(envInt("VERIF_SEED", 1))
	from := uint64(envInt("VERIF_FROM", 0))
	count := uint64(envInt("VERIF_COUNT", 1))
	deadline := envInt("VERIF_DEADLINE", 0)
	minimise := os.Getenv("VERIF_MINIMISE") != "0"
	minimised := map[string]bool{} // one minimisation per (invariant, signature) and worker
	for i := from; i < from+count; i++ {
		if deadline > 0 && time.Now().Unix() > deadline {
			emit(fmt.Sprintf("DEADLINE %d", i))
			break
		}
		seed := splitmix(base, i)
		emit(fmt.Sprintf("START %d", seed))
		env := sim.NewEnv(id, seed)
		env.Verbose = verbose
		env.Index = i
		env.BeforeCleanup = func(r sim.Record) {
			if r.Violation != nil {
				emit("PRE " + r.JSON())
			}
		}
		rec := runOnce(t, p, env)
		if rec.Violation != nil && minimise && !minimised[rec.Violation.Invariant+"|"+rec.Violation.Sig] && !strings.Contains(","+os.Getenv("VERIF_NOMIN_INVARIANTS")+",", ","+rec.Violation.Invariant+",") {
			inv := rec.Violation.Invariant
			minimised[inv+"|"+rec.Violation.Sig] = true
			tape, mrec, tried := sim.Minimise(rec.Tape, inv, func(tp []uint32) sim.Record {
				e2 := sim.NewReplayEnv(id, seed, tp)
				e2.Verbose = true
				e2.Index = i
				return runOnce(t, p, e2)
			}, 400, 60*time.Second, time.Now)
			if mrec.Violation != nil && mrec.Violation.Invariant == inv {
				rec.MinTape = tape
				rec.Minimised = true
				rec.MinTrace = mrec.Trace
				rec.MinDetail = mrec.Violation.Detail
				if rec.Probes == nil {
					rec.Probes = map[string]int{}
				}
				rec.Probes["minimise_candidates"] = tried
			}
		}
		emit("REC " + rec.JSON())
	}
	emit("DONE")
}
