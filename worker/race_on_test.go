//go:build race

package worker

// raceBuild is true in the race-detector flavour: every run then gets its own
// subtest, because the testing package fails (and ends) the test in which a
// race was reported.
const raceBuild = true
