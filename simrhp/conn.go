// Package simrhp is the simulated RHP4 transport: in-memory streams that
// implement net.Conn (buffered, with deadlines on the simulated clock) and a
// Transport that is both the host side (rhp4.TransportMux) and the renter side
// (rhp4.TransportClient). An optional interposer sits between the two ends of
// every stream and can pass, rewrite, truncate or cut what flows through.
package simrhp

import (
	"errors"
	"io"
	"net"
	"os"
	"sync"
	"time"
)

// ErrCut is returned by reads and writes on a stream the simulator has cut.
var ErrCut = errors.New("simrhp: connection cut")

type half struct {
	mu      sync.Mutex
	buf     []byte
	closed  bool  // writer closed: reader drains then sees EOF
	err     error // hard error for both sides (cut)
	notify  chan struct{}
	rdl     time.Time
	written int64
}

func newHalf() *half { return &half{notify: make(chan struct{}, 1)} }

func (h *half) wake() {
	select {
	case h.notify <- struct{}{}:
	default:
	}
}

func (h *half) write(p []byte) (int, error) {
	h.mu.Lock()
	defer h.mu.Unlock()
	if h.err != nil {
		return 0, h.err
	}
	if h.closed {
		return 0, io.ErrClosedPipe
	}
	h.buf = append(h.buf, p...)
	h.written += int64(len(p))
	h.wake()
	return len(p), nil
}

func (h *half) read(p []byte) (int, error) {
	for {
		h.mu.Lock()
		if len(h.buf) > 0 {
			n := copy(p, h.buf)
			h.buf = h.buf[n:]
			h.mu.Unlock()
			return n, nil
		}
		if h.err != nil {
			err := h.err
			h.mu.Unlock()
			return 0, err
		}
		if h.closed {
			h.mu.Unlock()
			return 0, io.EOF
		}
		dl := h.rdl
		h.mu.Unlock()
		if dl.IsZero() {
			<-h.notify
			continue
		}
		d := time.Until(dl)
		if d <= 0 {
			return 0, os.ErrDeadlineExceeded
		}
		t := time.NewTimer(d)
		select {
		case <-h.notify:
			t.Stop()
		case <-t.C:
			return 0, os.ErrDeadlineExceeded
		}
	}
}

func (h *half) close() {
	h.mu.Lock()
	h.closed = true
	h.mu.Unlock()
	h.wake()
}

func (h *half) fail(err error) {
	h.mu.Lock()
	if h.err == nil {
		h.err = err
	}
	h.mu.Unlock()
	h.wake()
}

func (h *half) setReadDeadline(t time.Time) {
	h.mu.Lock()
	h.rdl = t
	h.mu.Unlock()
	h.wake()
}

// Conn is one end of an in-memory stream.
type Conn struct {
	in, out *half
	name    string
	once    sync.Once
}

type addr string

func (a addr) Network() string { return "simrhp" }
func (a addr) String() string  { return string(a) }

// Pipe returns two connected ends.
func Pipe(a, b string) (*Conn, *Conn) {
	x, y := newHalf(), newHalf()
	return &Conn{in: x, out: y, name: a}, &Conn{in: y, out: x, name: b}
}

func (c *Conn) Read(p []byte) (int, error)  { return c.in.read(p) }
func (c *Conn) Write(p []byte) (int, error) { return c.out.write(p) }

// Close closes the write side and makes local reads fail.
func (c *Conn) Close() error {
	c.once.Do(func() {
		c.out.close()
		c.in.fail(net.ErrClosed)
	})
	return nil
}

// Cut breaks the stream for both ends (connection reset).
func (c *Conn) Cut() {
	c.in.fail(ErrCut)
	c.out.fail(ErrCut)
}

func (c *Conn) LocalAddr() net.Addr  { return addr(c.name) }
func (c *Conn) RemoteAddr() net.Addr { return addr("peer-of-" + c.name) }

func (c *Conn) SetDeadline(t time.Time) error      { c.in.setReadDeadline(t); return nil }
func (c *Conn) SetReadDeadline(t time.Time) error  { c.in.setReadDeadline(t); return nil }
func (c *Conn) SetWriteDeadline(t time.Time) error { return nil }

// Written reports how many bytes this end has written so far.
func (c *Conn) Written() int64 {
	c.out.mu.Lock()
	defer c.out.mu.Unlock()
	return c.out.written
}
