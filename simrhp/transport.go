package simrhp

import (
	"context"
	"fmt"
	"net"
	"sync"

	"go.sia.tech/core/types"
)

// An Interposer is started for every new stream when set: client is the end
// facing the renter, server the end facing the host. It must pump bytes in
// both directions (possibly altering them) and return when the stream is done.
type Interposer func(streamNo int, client, server *Conn)

// Transport connects a renter (rhp4.TransportClient) with a host
// (rhp4.TransportMux) through in-memory streams.
type Transport struct {
	mu      sync.Mutex
	accept  chan *Conn
	closed  chan struct{}
	once    sync.Once
	peerKey types.PublicKey
	streams int

	// Interpose, if non-nil, is consulted for every new stream.
	Interpose Interposer
	// FailDial, if non-nil, may refuse a dial attempt (stream numbers start at 1).
	FailDial func(streamNo int) error
	// OnDial is called (in the dialling goroutine) with the renter's end of
	// every new stream, e.g. to keep a handle for cutting it later.
	OnDial func(streamNo int, c *Conn)
}

// NewTransport returns a transport whose host has the given key.
func NewTransport(hostKey types.PublicKey) *Transport {
	return &Transport{accept: make(chan *Conn, 64), closed: make(chan struct{}), peerKey: hostKey}
}

// AcceptStream implements rhp4.TransportMux.
func (t *Transport) AcceptStream() (net.Conn, error) {
	select {
	case c := <-t.accept:
		return c, nil
	case <-t.closed:
		return nil, net.ErrClosed
	}
}

// DialStream implements rhp4.TransportClient.
func (t *Transport) DialStream(ctx context.Context) (net.Conn, error) {
	select {
	case <-t.closed:
		return nil, net.ErrClosed
	default:
	}
	if err := ctx.Err(); err != nil {
		return nil, err
	}
	t.mu.Lock()
	t.streams++
	n := t.streams
	ip := t.Interpose
	fd := t.FailDial
	t.mu.Unlock()
	if fd != nil {
		if err := fd(n); err != nil {
			return nil, err
		}
	}
	var client, server *Conn
	if ip == nil {
		client, server = Pipe(fmt.Sprintf("renter-%d", n), fmt.Sprintf("host-%d", n))
	} else {
		var mid1, mid2 *Conn
		client, mid1 = Pipe(fmt.Sprintf("renter-%d", n), fmt.Sprintf("mitm-r-%d", n))
		mid2, server = Pipe(fmt.Sprintf("mitm-h-%d", n), fmt.Sprintf("host-%d", n))
		go ip(n, mid1, mid2)
	}
	if t.OnDial != nil {
		t.OnDial(n, client)
	}
	select {
	case t.accept <- server:
	case <-t.closed:
		return nil, net.ErrClosed
	}
	return client, nil
}

// FrameSize implements rhp4.TransportClient.
func (t *Transport) FrameSize() int { return 1440 * 3 }

// PeerKey implements rhp4.TransportClient.
func (t *Transport) PeerKey() types.PublicKey { return t.peerKey }

// Close implements both interfaces.
func (t *Transport) Close() error {
	t.once.Do(func() { close(t.closed) })
	return nil
}

// Streams reports how many streams were dialled.
func (t *Transport) Streams() int {
	t.mu.Lock()
	defer t.mu.Unlock()
	return t.streams
}
