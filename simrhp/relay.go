package simrhp

import (
	"errors"
	"io"

	rhp4 "go.sia.tech/core/rhp/v4"
	"go.sia.tech/core/types"
)

// An Action tells the relay what to do with one message.
type Action int

// Actions.
const (
	Pass        Action = iota // forward (the hook may have mutated the object)
	Drop                      // do not forward; cut the stream
	Truncate                  // forward only part of the encoding, then cut
	CutAfter                  // forward, then cut the stream
	Impersonate               // (renter->host message) do not forward: answer the renter in the host's place with the relay's Answer function, for this and every later renter message of the exchange
)

// An Answerer fabricates the host's next message after a renter message the
// hook chose to Impersonate on (a Byzantine host that does not run the honest
// server for this step). A nil result cuts the stream.
type Answerer func(streamNo int, rpc types.Specifier, step int, renterMsg rhp4.Object) rhp4.Object

// A Step is one typed message of an RPC exchange.
type Step struct {
	FromRenter bool
	Name       string
	New        func() rhp4.Object
	// RawAfter, if set, returns the number of raw bytes that follow the
	// message in the same direction (sector data).
	RawAfter func(o rhp4.Object) uint64
}

// Flows lists, per RPC, the messages exchanged after the RPC id.
var Flows = map[types.Specifier][]Step{
	rhp4.RPCSettingsID: {
		{false, "SettingsResponse", func() rhp4.Object { return new(rhp4.RPCSettingsResponse) }, nil},
	},
	rhp4.RPCReadSectorID: {
		{true, "ReadSectorRequest", func() rhp4.Object { return new(rhp4.RPCReadSectorRequest) }, nil},
		{false, "ReadSectorResponse", func() rhp4.Object { return new(rhp4.RPCReadSectorResponse) }, func(o rhp4.Object) uint64 { return o.(*rhp4.RPCReadSectorResponse).DataLength }},
	},
	rhp4.RPCWriteSectorID: {
		{true, "WriteSectorRequest", func() rhp4.Object { return new(rhp4.RPCWriteSectorRequest) }, func(o rhp4.Object) uint64 { return o.(*rhp4.RPCWriteSectorRequest).DataLength }},
		{false, "WriteSectorResponse", func() rhp4.Object { return new(rhp4.RPCWriteSectorResponse) }, nil},
	},
	rhp4.RPCVerifySectorID: {
		{true, "VerifySectorRequest", func() rhp4.Object { return new(rhp4.RPCVerifySectorRequest) }, nil},
		{false, "VerifySectorResponse", func() rhp4.Object { return new(rhp4.RPCVerifySectorResponse) }, nil},
	},
	rhp4.RPCFreeSectorsID: {
		{true, "FreeSectorsRequest", func() rhp4.Object { return new(rhp4.RPCFreeSectorsRequest) }, nil},
		{false, "FreeSectorsResponse", func() rhp4.Object { return new(rhp4.RPCFreeSectorsResponse) }, nil},
		{true, "FreeSectorsSecondResponse", func() rhp4.Object { return new(rhp4.RPCFreeSectorsSecondResponse) }, nil},
		{false, "FreeSectorsThirdResponse", func() rhp4.Object { return new(rhp4.RPCFreeSectorsThirdResponse) }, nil},
	},
	rhp4.RPCAppendSectorsID: {
		{true, "AppendSectorsRequest", func() rhp4.Object { return new(rhp4.RPCAppendSectorsRequest) }, nil},
		{false, "AppendSectorsResponse", func() rhp4.Object { return new(rhp4.RPCAppendSectorsResponse) }, nil},
		{true, "AppendSectorsSecondResponse", func() rhp4.Object { return new(rhp4.RPCAppendSectorsSecondResponse) }, nil},
		{false, "AppendSectorsThirdResponse", func() rhp4.Object { return new(rhp4.RPCAppendSectorsThirdResponse) }, nil},
	},
	rhp4.RPCFundAccountsID: {
		{true, "FundAccountsRequest", func() rhp4.Object { return new(rhp4.RPCFundAccountsRequest) }, nil},
		{false, "FundAccountsResponse", func() rhp4.Object { return new(rhp4.RPCFundAccountsResponse) }, nil},
	},
	rhp4.RPCReplenishAccountsID: {
		{true, "ReplenishAccountsRequest", func() rhp4.Object { return new(rhp4.RPCReplenishAccountsRequest) }, nil},
		{false, "ReplenishAccountsResponse", func() rhp4.Object { return new(rhp4.RPCReplenishAccountsResponse) }, nil},
		{true, "ReplenishAccountsSecondResponse", func() rhp4.Object { return new(rhp4.RPCReplenishAccountsSecondResponse) }, nil},
		{false, "ReplenishAccountsThirdResponse", func() rhp4.Object { return new(rhp4.RPCReplenishAccountsThirdResponse) }, nil},
	},
	rhp4.RPCReplenishPoolsID: {
		{true, "ReplenishPoolsRequest", func() rhp4.Object { return new(rhp4.RPCReplenishAccountsRequest) }, nil},
		{false, "ReplenishPoolsResponse", func() rhp4.Object { return new(rhp4.RPCReplenishAccountsResponse) }, nil},
		{true, "ReplenishPoolsSecondResponse", func() rhp4.Object { return new(rhp4.RPCReplenishAccountsSecondResponse) }, nil},
		{false, "ReplenishPoolsThirdResponse", func() rhp4.Object { return new(rhp4.RPCReplenishAccountsThirdResponse) }, nil},
	},
	rhp4.RPCAttachPoolsID: {
		{true, "AttachPoolsRequest", func() rhp4.Object { return new(rhp4.RPCAttachPoolsRequest) }, nil},
		{false, "AttachPoolsResponse", func() rhp4.Object { return new(rhp4.RPCAttachPoolsResponse) }, nil},
	},
	rhp4.RPCDetachPoolsID: {
		{true, "DetachPoolsRequest", func() rhp4.Object { return new(rhp4.RPCDetachPoolsRequest) }, nil},
		{false, "DetachPoolsResponse", func() rhp4.Object { return new(rhp4.RPCDetachPoolsResponse) }, nil},
	},
	rhp4.RPCLatestRevisionID: {
		{true, "LatestRevisionRequest", func() rhp4.Object { return new(rhp4.RPCLatestRevisionRequest) }, nil},
		{false, "LatestRevisionResponse", func() rhp4.Object { return new(rhp4.RPCLatestRevisionResponse) }, nil},
	},
	rhp4.RPCSectorRootsID: {
		{true, "SectorRootsRequest", func() rhp4.Object { return new(rhp4.RPCSectorRootsRequest) }, nil},
		{false, "SectorRootsResponse", func() rhp4.Object { return new(rhp4.RPCSectorRootsResponse) }, nil},
	},
	rhp4.RPCAccountBalanceID: {
		{true, "AccountBalanceRequest", func() rhp4.Object { return new(rhp4.RPCAccountBalanceRequest) }, nil},
		{false, "AccountBalanceResponse", func() rhp4.Object { return new(rhp4.RPCAccountBalanceResponse) }, nil},
	},
	rhp4.RPCFormContractID: {
		{true, "FormContractRequest", func() rhp4.Object { return new(rhp4.RPCFormContractRequest) }, nil},
		{false, "FormContractResponse", func() rhp4.Object { return new(rhp4.RPCFormContractResponse) }, nil},
		{true, "FormContractSecondResponse", func() rhp4.Object { return new(rhp4.RPCFormContractSecondResponse) }, nil},
		{false, "FormContractThirdResponse", func() rhp4.Object { return new(rhp4.RPCFormContractThirdResponse) }, nil},
	},
	rhp4.RPCRenewContractID: {
		{true, "RenewContractRequest", func() rhp4.Object { return new(rhp4.RPCRenewContractRequest) }, nil},
		{false, "RenewContractResponse", func() rhp4.Object { return new(rhp4.RPCRenewContractResponse) }, nil},
		{true, "RenewContractSecondResponse", func() rhp4.Object { return new(rhp4.RPCRenewContractSecondResponse) }, nil},
		{false, "RenewContractThirdResponse", func() rhp4.Object { return new(rhp4.RPCRenewContractThirdResponse) }, nil},
	},
	rhp4.RPCRefreshContractID: {
		{true, "RefreshContractRequest", func() rhp4.Object { return new(rhp4.RPCRefreshContractRequest) }, nil},
		{false, "RefreshContractResponse", func() rhp4.Object { return new(rhp4.RPCRefreshContractResponse) }, nil},
		{true, "RefreshContractSecondResponse", func() rhp4.Object { return new(rhp4.RPCRefreshContractSecondResponse) }, nil},
		{false, "RefreshContractThirdResponse", func() rhp4.Object { return new(rhp4.RPCRefreshContractThirdResponse) }, nil},
	},
	rhp4.RPCRefreshPartialID: {
		{true, "RefreshPartialRequest", func() rhp4.Object { return new(rhp4.RPCRefreshContractRequest) }, nil},
		{false, "RefreshPartialResponse", func() rhp4.Object { return new(rhp4.RPCRefreshContractResponse) }, nil},
		{true, "RefreshPartialSecondResponse", func() rhp4.Object { return new(rhp4.RPCRefreshContractSecondResponse) }, nil},
		{false, "RefreshPartialThirdResponse", func() rhp4.Object { return new(rhp4.RPCRefreshContractThirdResponse) }, nil},
	},
}

// A Hook inspects (and may mutate) message number step of the exchange rpc
// on stream streamNo. raw is non-nil for the raw payload that follows a
// message (step is then the step of that message) and may be modified in place.
type Hook func(streamNo int, rpc types.Specifier, step int, s Step, o rhp4.Object, raw []byte) Action

// capture buffers one encoded message.
type capture struct{ b []byte }

func (c *capture) Write(p []byte) (int, error) { c.b = append(c.b, p...); return len(p), nil }

// TypedRelay returns an Interposer that decodes every message of the exchange,
// hands it to hook and re-encodes it. Error responses of the host are forwarded
// as they are.
func TypedRelay(hook Hook) Interposer { return TypedRelayAnswering(hook, nil) }

// TypedRelayAnswering is TypedRelay with an Answerer for Impersonate actions.
func TypedRelayAnswering(hook Hook, answer Answerer) Interposer {
	return func(streamNo int, renter, host *Conn) {
		defer renter.Close()
		defer host.Close()
		cut := func() {
			renter.Cut()
			host.Cut()
		}
		id, err := rhp4.ReadID(renter)
		if err != nil {
			return
		}
		flow, ok := Flows[id]
		if !ok {
			// unknown RPC: forward blindly
			if rhp4.WriteRequest(host, id, nil) != nil {
				return
			}
			go io.Copy(host, renter)
			io.Copy(renter, host)
			return
		}
		if len(flow) > 0 && !flow[0].FromRenter {
			// exchanges without a request object (Settings)
			if rhp4.WriteRequest(host, id, nil) != nil {
				return
			}
		}
		for i, st := range flow {
			o := st.New()
			src, dst := host, renter
			if st.FromRenter {
				src, dst = renter, host
			}
			var rerr error
			isFirstRequest := st.FromRenter && i == 0
			if isFirstRequest {
				rerr = rhp4.ReadRequest(src, o)
			} else {
				rerr = rhp4.ReadResponse(src, o)
			}
			if rerr != nil {
				var re *rhp4.RPCError
				if errors.As(rerr, &re) {
					// the other side answered with an error: forward it and stop
					rhp4.WriteResponse(dst, re)
				}
				return
			}
			act := Pass
			if hook != nil {
				act = hook(streamNo, id, i, st, o, nil)
			}
			if act == Drop {
				cut()
				return
			}
			if act == Impersonate {
				if answer != nil && st.FromRenter {
					// the relay is the host from here on: it answers this message
					// and every later renter message of the exchange
					host.Cut()
					cur := o
					for idx := i; ; {
						a := answer(streamNo, id, idx, cur)
						if a == nil {
							break
						}
						rhp4.WriteResponse(renter, a)
						idx += 2
						if idx >= len(flow) || !flow[idx].FromRenter {
							return
						}
						cur = flow[idx].New()
						if rhp4.ReadResponse(renter, cur) != nil {
							return
						}
					}
				}
				cut()
				return
			}
			var c capture
			if isFirstRequest {
				rhp4.WriteRequest(&c, id, o)
			} else {
				rhp4.WriteResponse(&c, o)
			}
			if act == Truncate {
				dst.Write(c.b[:len(c.b)/2])
				cut()
				return
			}
			if _, err := dst.Write(c.b); err != nil {
				if st.FromRenter && i+1 < len(flow) {
					// the host has already answered (with an error) and closed:
					// hand its answer to the renter as a real stream would
					var re *rhp4.RPCError
					if rerr := rhp4.ReadResponse(host, flow[i+1].New()); errors.As(rerr, &re) {
						rhp4.WriteResponse(renter, re)
					}
				}
				return
			}
			if st.RawAfter != nil {
				n := st.RawAfter(o)
				if n > 1<<23 {
					n = 1 << 23
				}
				buf := make([]byte, n)
				got, _ := io.ReadFull(src, buf)
				buf = buf[:got]
				if hook != nil {
					if a := hook(streamNo, id, i, st, o, buf); a == Drop {
						cut()
						return
					} else if a == Truncate {
						buf = buf[:len(buf)/2]
						dst.Write(buf)
						cut()
						return
					}
				}
				if _, err := dst.Write(buf); err != nil {
					return
				}
			}
			if act == CutAfter {
				cut()
				return
			}
		}
		// drain whatever else flows until both sides are done
		done := make(chan struct{})
		go func() { io.Copy(host, renter); host.Close(); close(done) }()
		io.Copy(renter, host)
		renter.Close()
		<-done
	}
}
