// Package simnet is the simulated p2p network: in-memory listeners, a dialer
// and net.Conn values whose segments are delivered after a delay drawn from a
// per-direction PRNG (a pure function of the run seed, the connection number
// and the segment index, so that goroutine wake-up order cannot perturb the
// draws). The harness can partition node pairs (segments are held), heal
// them, reset connections and stall directions. TCP semantics: reliable,
// ordered per connection; "loss" exists only as reset.
package simnet

import (
	"context"
	"errors"
	"fmt"
	"io"
	"math/rand/v2"
	"net"
	"os"
	"sync"
	"time"
)

// Config holds the per-run network parameters.
type Config struct {
	Seed       uint64
	MinLatency time.Duration
	Jitter     time.Duration
}

// Net is one simulated network.
type Net struct {
	cfg Config

	mu        sync.Mutex
	listeners map[string]*Listener
	conns     []*Conn // one per endpoint
	nconn     int
	blocked   map[[2]string]bool // partitioned host pairs (ordered)
	wake      chan struct{}

	// counters
	Segments, Held, Resets, Dials, Refused int
}

// New returns an empty network.
func New(cfg Config) *Net {
	return &Net{cfg: cfg, listeners: map[string]*Listener{}, blocked: map[[2]string]bool{}, wake: make(chan struct{})}
}

type addr string

func (a addr) Network() string { return "tcp" }
func (a addr) String() string  { return string(a) }

func hostOf(a string) string {
	h, _, err := net.SplitHostPort(a)
	if err != nil {
		return a
	}
	return h
}

func pair(a, b string) [2]string {
	if a > b {
		a, b = b, a
	}
	return [2]string{a, b}
}

// Partition cuts the link between two hosts (segments are held, not lost).
func (n *Net) Partition(hostA, hostB string) {
	n.mu.Lock()
	n.blocked[pair(hostA, hostB)] = true
	n.mu.Unlock()
}

// Heal restores the link between two hosts.
func (n *Net) Heal(hostA, hostB string) {
	n.mu.Lock()
	delete(n.blocked, pair(hostA, hostB))
	w := n.wake
	n.wake = make(chan struct{})
	n.mu.Unlock()
	close(w)
}

// HealAll removes every partition.
func (n *Net) HealAll() {
	n.mu.Lock()
	n.blocked = map[[2]string]bool{}
	w := n.wake
	n.wake = make(chan struct{})
	n.mu.Unlock()
	close(w)
}

func (n *Net) isBlocked(a, b string) (bool, chan struct{}) {
	n.mu.Lock()
	defer n.mu.Unlock()
	return n.blocked[pair(a, b)], n.wake
}

// ResetBetween resets every live connection between two hosts.
func (n *Net) ResetBetween(hostA, hostB string) int {
	n.mu.Lock()
	var hit []*Conn
	for _, c := range n.conns {
		if pair(hostOf(c.local), hostOf(c.remote)) == pair(hostA, hostB) && !c.dead() {
			hit = append(hit, c)
		}
	}
	n.Resets += len(hit) / 2
	n.mu.Unlock()
	for _, c := range hit {
		c.reset()
	}
	return len(hit) / 2
}

// Listen creates a listener on address (an IP literal with port).
func (n *Net) Listen(address string) (*Listener, error) {
	n.mu.Lock()
	defer n.mu.Unlock()
	if _, ok := n.listeners[address]; ok {
		return nil, errors.New("simnet: address in use")
	}
	l := &Listener{n: n, a: address, ch: make(chan *Conn, 256), closed: make(chan struct{})}
	n.listeners[address] = l
	return l, nil
}

// Listener implements net.Listener.
type Listener struct {
	n      *Net
	a      string
	ch     chan *Conn
	closed chan struct{}
	once   sync.Once
}

// Accept implements net.Listener.
func (l *Listener) Accept() (net.Conn, error) {
	select {
	case c := <-l.ch:
		return c, nil
	case <-l.closed:
		return nil, net.ErrClosed
	}
}

// Close implements net.Listener.
func (l *Listener) Close() error {
	// like a real listener: closing it a second time is an error
	err := net.ErrClosed
	l.once.Do(func() {
		err = nil
		close(l.closed)
		l.n.mu.Lock()
		delete(l.n.listeners, l.a)
		l.n.mu.Unlock()
	})
	return err
}

// Addr implements net.Listener.
func (l *Listener) Addr() net.Addr { return addr(l.a) }

// Dialer dials from a fixed local host.
type Dialer struct {
	N    *Net
	Host string
	mu   sync.Mutex
	port int
}

// DialContext implements syncer.Dialer.
func (d *Dialer) DialContext(ctx context.Context, network, address string) (net.Conn, error) {
	if err := ctx.Err(); err != nil {
		return nil, err
	}
	n := d.N
	n.mu.Lock()
	l, ok := n.listeners[address]
	n.Dials++
	if !ok || n.blocked[pair(d.Host, hostOf(address))] {
		n.Refused++
		n.mu.Unlock()
		return nil, fmt.Errorf("simnet: connection refused (%s -> %s)", d.Host, address)
	}
	n.nconn++
	id := n.nconn
	n.mu.Unlock()
	d.mu.Lock()
	d.port++
	local := fmt.Sprintf("%s:%d", d.Host, 40000+d.port)
	d.mu.Unlock()
	c1, c2 := n.newPair(id, local, address)
	select {
	case l.ch <- c2:
		return c1, nil
	case <-l.closed:
		return nil, fmt.Errorf("simnet: connection refused (%s -> %s)", d.Host, address)
	}
}

type segment struct {
	data []byte
	at   time.Time
}

// dir is one direction of a connection: a queue of in-flight segments and the
// bytes already delivered to the reader.
type dir struct {
	mu       sync.Mutex
	inflight []segment
	buf      []byte
	closed   bool // writer closed
	err      error
	rnotify  chan struct{} // reader wake
	pnotify  chan struct{} // pump wake
	rdl      time.Time
	rng      *rand.Rand
	n        *Net
	from, to string
	done     chan struct{}
}

func wakeCh(ch chan struct{}) {
	select {
	case ch <- struct{}{}:
	default:
	}
}

// pump moves segments from inflight to buf when their time has come and the
// link is not partitioned.
func (d *dir) pump() {
	for {
		d.mu.Lock()
		if d.err != nil || (d.closed && len(d.inflight) == 0) {
			d.mu.Unlock()
			wakeCh(d.rnotify)
			return
		}
		if len(d.inflight) == 0 {
			d.mu.Unlock()
			select {
			case <-d.pnotify:
			case <-d.done:
				return
			}
			continue
		}
		seg := d.inflight[0]
		d.mu.Unlock()
		if wait := time.Until(seg.at); wait > 0 {
			t := time.NewTimer(wait)
			select {
			case <-t.C:
			case <-d.done:
				t.Stop()
				return
			}
		}
		if blocked, wake := d.n.isBlocked(hostOf(d.from), hostOf(d.to)); blocked {
			d.n.mu.Lock()
			d.n.Held++
			d.n.mu.Unlock()
			select {
			case <-wake:
			case <-d.done:
				return
			}
			continue
		}
		d.mu.Lock()
		if len(d.inflight) > 0 {
			d.buf = append(d.buf, d.inflight[0].data...)
			d.inflight = d.inflight[1:]
		}
		d.mu.Unlock()
		wakeCh(d.rnotify)
	}
}

func (d *dir) write(p []byte) (int, error) {
	d.mu.Lock()
	if d.err != nil {
		err := d.err
		d.mu.Unlock()
		return 0, err
	}
	if d.closed {
		d.mu.Unlock()
		return 0, io.ErrClosedPipe
	}
	delay := d.n.cfg.MinLatency
	if d.n.cfg.Jitter > 0 {
		delay += time.Duration(d.rng.Int64N(int64(d.n.cfg.Jitter) + 1))
	}
	at := time.Now().Add(delay)
	if k := len(d.inflight); k > 0 && d.inflight[k-1].at.After(at) {
		at = d.inflight[k-1].at // FIFO per connection
	}
	d.inflight = append(d.inflight, segment{append([]byte(nil), p...), at})
	d.mu.Unlock()
	d.n.mu.Lock()
	d.n.Segments++
	d.n.mu.Unlock()
	wakeCh(d.pnotify)
	return len(p), nil
}

func (d *dir) read(p []byte) (int, error) {
	for {
		d.mu.Lock()
		if len(d.buf) > 0 {
			n := copy(p, d.buf)
			d.buf = d.buf[n:]
			d.mu.Unlock()
			return n, nil
		}
		if d.err != nil {
			err := d.err
			d.mu.Unlock()
			return 0, err
		}
		if d.closed && len(d.inflight) == 0 {
			d.mu.Unlock()
			return 0, io.EOF
		}
		dl := d.rdl
		d.mu.Unlock()
		if dl.IsZero() {
			<-d.rnotify
			continue
		}
		wait := time.Until(dl)
		if wait <= 0 {
			return 0, os.ErrDeadlineExceeded
		}
		t := time.NewTimer(wait)
		select {
		case <-d.rnotify:
			t.Stop()
		case <-t.C:
			return 0, os.ErrDeadlineExceeded
		}
	}
}

func (d *dir) fail(err error) {
	d.mu.Lock()
	if d.err == nil {
		d.err = err
	}
	d.mu.Unlock()
	wakeCh(d.rnotify)
	wakeCh(d.pnotify)
}

func (d *dir) closeWrite() {
	d.mu.Lock()
	d.closed = true
	d.mu.Unlock()
	wakeCh(d.pnotify)
	wakeCh(d.rnotify)
}

// Conn implements net.Conn.
type Conn struct {
	in, out       *dir
	local, remote string
	once          sync.Once
	done          chan struct{}
	peer          *Conn
}

func (n *Net) newPair(id int, a, b string) (*Conn, *Conn) {
	mk := func(k uint64, from, to string, done chan struct{}) *dir {
		return &dir{rnotify: make(chan struct{}, 1), pnotify: make(chan struct{}, 1), n: n, from: from, to: to, done: done,
			rng: rand.New(rand.NewPCG(n.cfg.Seed^uint64(id)*0x9e3779b97f4a7c15, k))}
	}
	done := make(chan struct{})
	ab, ba := mk(1, a, b, done), mk(2, b, a, done)
	c1 := &Conn{in: ba, out: ab, local: a, remote: b, done: done}
	c2 := &Conn{in: ab, out: ba, local: b, remote: a, done: done}
	c1.peer, c2.peer = c2, c1
	go ab.pump()
	go ba.pump()
	n.mu.Lock()
	n.conns = append(n.conns, c1, c2)
	n.mu.Unlock()
	return c1, c2
}

func (c *Conn) dead() bool {
	c.in.mu.Lock()
	defer c.in.mu.Unlock()
	return c.in.err != nil
}

func (c *Conn) reset() {
	err := errors.New("simnet: connection reset by peer")
	c.in.fail(err)
	c.out.fail(err)
}

// Read implements net.Conn.
func (c *Conn) Read(p []byte) (int, error) { return c.in.read(p) }

// Write implements net.Conn.
func (c *Conn) Write(p []byte) (int, error) { return c.out.write(p) }

// Close implements net.Conn.
func (c *Conn) Close() error {
	c.once.Do(func() {
		c.out.closeWrite()
		c.in.fail(net.ErrClosed)
	})
	return nil
}

// LocalAddr implements net.Conn.
func (c *Conn) LocalAddr() net.Addr { return addr(c.local) }

// RemoteAddr implements net.Conn.
func (c *Conn) RemoteAddr() net.Addr { return addr(c.remote) }

// SetDeadline implements net.Conn.
func (c *Conn) SetDeadline(t time.Time) error { return c.SetReadDeadline(t) }

// SetReadDeadline implements net.Conn.
func (c *Conn) SetReadDeadline(t time.Time) error {
	c.in.mu.Lock()
	c.in.rdl = t
	c.in.mu.Unlock()
	wakeCh(c.in.rnotify)
	return nil
}

// SetWriteDeadline implements net.Conn.
func (c *Conn) SetWriteDeadline(time.Time) error { return nil }

// Shutdown stops every pump goroutine (end of run).
func (n *Net) Shutdown() {
	n.mu.Lock()
	conns := append([]*Conn(nil), n.conns...)
	n.mu.Unlock()
	for _, c := range conns {
		select {
		case <-c.done:
		default:
			close(c.done)
		}
		c.in.fail(net.ErrClosed)
	}
}
