// Package simdisk is the simulated disk under the chain store: a chain.DB with
// an explicit committed image and a pending overlay. It is also the executable
// reference model of the key-value contract (C17): reads and iteration reflect
// all earlier writes and deletes of the session, Flush makes them durable,
// Cancel (and a crash) discards exactly the unflushed ones.
package simdisk

import (
	"errors"
	"iter"
	"sort"

	"go.sia.tech/coreutils/chain"
)

// Image is an immutable committed database image.
type Image struct {
	Buckets map[string]map[string][]byte
	Seq     int // how many commits produced it
}

// Clone returns a deep copy of the bucket maps (values are shared; they are
// never mutated).
func (im *Image) Clone() *Image {
	c := &Image{Buckets: make(map[string]map[string][]byte, len(im.Buckets)), Seq: im.Seq}
	for b, kv := range im.Buckets {
		m := make(map[string][]byte, len(kv))
		for k, v := range kv {
			m[k] = v
		}
		c.Buckets[b] = m
	}
	return c
}

type overlay struct {
	puts map[string][]byte
	dels map[string]struct{}
}

// DB implements chain.DB.
type DB struct {
	committed *Image
	pending   map[string]*overlay // bucket -> overlay (also marks buckets created in this session)
	created   map[string]bool

	// OnCommit, if set, is called after every successful Flush that had
	// something to commit, with the new committed image (already cloned).
	OnCommit func(im *Image)
	// Fault, if set, is consulted before put/delete/flush; a non-nil error is
	// returned to the caller and the operation has no effect.
	Fault func(op string) error
	// FaultAt, if set, is consulted as well, with the bucket a put / delete
	// goes to ("" for flush): faults that do not depend on the order in which
	// the caller writes.
	FaultAt func(op, bucket string) error
	// Yield, if set, is called before every put / delete / flush: a
	// scheduling point for concurrent phases (another goroutine's commit can
	// land between two writes of this one)
	Yield func(site string)

	Flushes, Puts, Dels, Cancels int
}

var _ chain.DB = (*DB)(nil)

// New returns an empty DB.
func New() *DB { return FromImage(&Image{Buckets: map[string]map[string][]byte{}}) }

// FromImage returns a DB whose committed state is a copy of im ("reopen").
func FromImage(im *Image) *DB {
	return &DB{committed: im.Clone(), pending: map[string]*overlay{}, created: map[string]bool{}}
}

// Committed returns a copy of the committed image.
func (db *DB) Committed() *Image { return db.committed.Clone() }

// Crash discards everything not committed.
func (db *DB) Crash() {
	db.pending = map[string]*overlay{}
	db.created = map[string]bool{}
}

// Dirty reports whether there are uncommitted changes.
func (db *DB) Dirty() bool {
	if len(db.created) > 0 {
		return true
	}
	for _, o := range db.pending {
		if len(o.puts) > 0 || len(o.dels) > 0 {
			return true
		}
	}
	return false
}

func (db *DB) exists(name string) bool {
	if db.created[name] {
		return true
	}
	_, ok := db.committed.Buckets[name]
	return ok
}

// Bucket implements chain.DB.
func (db *DB) Bucket(name []byte) chain.DBBucket {
	if !db.exists(string(name)) {
		return nil
	}
	return &bucket{db, string(name)}
}

// CreateBucket implements chain.DB.
func (db *DB) CreateBucket(name []byte) (chain.DBBucket, error) {
	if db.exists(string(name)) {
		return nil, errors.New("bucket already exists")
	}
	db.created[string(name)] = true
	return &bucket{db, string(name)}, nil
}

// Flush implements chain.DB.
func (db *DB) Flush() error {
	if db.Yield != nil {
		db.Yield("disk.flush")
	}
	if db.Fault != nil {
		if err := db.Fault("flush"); err != nil {
			return err
		}
	}
	db.Flushes++
	if !db.Dirty() {
		return nil
	}
	for name := range db.created {
		if db.committed.Buckets[name] == nil {
			db.committed.Buckets[name] = map[string][]byte{}
		}
	}
	for name, o := range db.pending {
		b := db.committed.Buckets[name]
		if b == nil {
			b = map[string][]byte{}
			db.committed.Buckets[name] = b
		}
		for k, v := range o.puts {
			b[k] = v
		}
		for k := range o.dels {
			delete(b, k)
		}
	}
	db.pending = map[string]*overlay{}
	db.created = map[string]bool{}
	db.committed.Seq++
	if db.OnCommit != nil {
		db.OnCommit(db.committed.Clone())
	}
	return nil
}

// Cancel implements chain.DB.
func (db *DB) Cancel() {
	db.Cancels++
	db.Crash()
}

func (db *DB) ov(name string) *overlay {
	o := db.pending[name]
	if o == nil {
		o = &overlay{puts: map[string][]byte{}, dels: map[string]struct{}{}}
		db.pending[name] = o
	}
	return o
}

type bucket struct {
	db   *DB
	name string
}

func (b *bucket) Get(key []byte) []byte {
	if o := b.db.pending[b.name]; o != nil {
		if v, ok := o.puts[string(key)]; ok {
			return v
		} else if _, ok := o.dels[string(key)]; ok {
			return nil
		}
	}
	return b.db.committed.Buckets[b.name][string(key)]
}

func (b *bucket) Put(key, value []byte) error {
	if b.db.Yield != nil {
		b.db.Yield("disk.put")
	}
	if !b.db.exists(b.name) {
		return errors.New("bucket does not exist")
	}
	if b.db.Fault != nil {
		if err := b.db.Fault("put"); err != nil {
			return err
		}
	}
	if b.db.FaultAt != nil {
		if err := b.db.FaultAt("put", b.name); err != nil {
			return err
		}
	}
	b.db.Puts++
	o := b.db.ov(b.name)
	o.puts[string(key)] = append([]byte(nil), value...)
	delete(o.dels, string(key))
	return nil
}

func (b *bucket) Delete(key []byte) error {
	if b.db.Yield != nil {
		b.db.Yield("disk.delete")
	}
	if !b.db.exists(b.name) {
		return errors.New("bucket does not exist")
	}
	if b.db.Fault != nil {
		if err := b.db.Fault("delete"); err != nil {
			return err
		}
	}
	if b.db.FaultAt != nil {
		if err := b.db.FaultAt("delete", b.name); err != nil {
			return err
		}
	}
	b.db.Dels++
	o := b.db.ov(b.name)
	o.dels[string(key)] = struct{}{}
	delete(o.puts, string(key))
	return nil
}

// Iter yields live pairs in key order (like bolt).
func (b *bucket) Iter() iter.Seq2[[]byte, []byte] {
	return func(yield func([]byte, []byte) bool) {
		live := map[string][]byte{}
		for k, v := range b.db.committed.Buckets[b.name] {
			live[k] = v
		}
		if o := b.db.pending[b.name]; o != nil {
			for k := range o.dels {
				delete(live, k)
			}
			for k, v := range o.puts {
				live[k] = v
			}
		}
		keys := make([]string, 0, len(live))
		for k := range live {
			keys = append(keys, k)
		}
		sort.Strings(keys)
		for _, k := range keys {
			if !yield([]byte(k), live[k]) {
				return
			}
		}
	}
}

// BucketNames returns the names of all buckets visible in the session, sorted.
func (db *DB) BucketNames() []string {
	seen := map[string]bool{}
	for n := range db.committed.Buckets {
		seen[n] = true
	}
	for n := range db.created {
		seen[n] = true
	}
	names := make([]string, 0, len(seen))
	for n := range seen {
		names = append(names, n)
	}
	sort.Strings(names)
	return names
}

// Dump returns the live key/value pairs of a bucket (session view) as a map.
func (db *DB) Dump(name string) map[string][]byte {
	out := map[string][]byte{}
	b := db.Bucket([]byte(name))
	if b == nil {
		return out
	}
	for k, v := range b.Iter() {
		out[string(k)] = v
	}
	return out
}
