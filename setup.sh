#!/bin/sh
# builds the runner and warms the build cache; offline
cd "$(dirname "$0")" || exit 2
. ./env.sh
mkdir -p bin evidence replays
$GO build -o bin/simcheck ./cmd/simcheck || exit 2
$GO test -c -o bin/worker-plain.test ./worker || exit 2
echo "setup ok"
