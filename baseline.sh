#!/bin/sh
# Runs the repository's pinned test suite with the verif guard OFF (no build
# tag), the way /root/.vp/BASELINE.json does, and prints a pass/fail summary.
cd /repo || exit 2
export GOPROXY=off
go test -mod=mod -json -vet=off -count=1 -timeout 25m ./... > /tmp/verif-baseline.json 2>/tmp/verif-baseline.err
python3 - <<'PY'
import json
p=f=0
failed=[]
for l in open('/tmp/verif-baseline.json'):
    try: e=json.loads(l)
    except Exception: continue
    if e.get('Test') and e.get('Action') in ('pass','fail'):
        if e['Action']=='pass': p+=1
        else:
            f+=1; failed.append(e['Package']+'::'+e['Test'])
print('baseline: passed=%d failed=%d'%(p,f))
for x in failed: print('FAILED',x)
import sys
sys.exit(1 if f or p==0 else 0)
PY
