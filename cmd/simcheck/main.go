// simcheck is the runner: it builds the worker from /repo's current tree,
// fans seed ranges out to worker processes (one P each), aggregates their
// per-run records, writes replay files for violations, matches them against
// known_findings.txt, writes the evidence file and prints the verdict lines.
//
// Exit codes: 0 held on everything explored (possibly with KNOWN-FINDING
// lines); 1 at least one VIOLATION line; 2 build / watchdog / harness trouble.
package main

import (
	"bufio"
	"bytes"
	"crypto/sha256"
	"encoding/json"
	"flag"
	"fmt"
	"os"
	"os/exec"
	"path/filepath"
	"regexp"
	"sort"
	"strconv"
	"strings"
	"sync"
	"time"

	"verif/props"
	"verif/sim"
)

var (
	fProp    = flag.String("property", "", "property id")
	fTier    = flag.String("tier", "quick", "quick|thorough")
	fReplay  = flag.String("replay", "", "replay file")
	fRuns    = flag.Int("runs", 0, "override number of runs")
	fProcs   = flag.Int("procs", 16, "worker processes")
	fBudget  = flag.Duration("budget", 0, "wall budget for the exploration phase")
	fWorker  = flag.String("worker", "", "pre-built worker binary (skip build)")
	fVerifyD = flag.Bool("determinism", true, "re-run a sample of seeds and compare trace hashes")
)

const root = "/verif"

type finding struct {
	kind      string // open | fixed
	property  string
	invariant string
	sig       *regexp.Regexp
	text      string
	hit       int
}

func loadFindings() []*finding {
	var out []*finding
	f, err := os.Open(filepath.Join(root, "known_findings.txt"))
	if err != nil {
		return nil
	}
	defer f.Close()
	sc := bufio.NewScanner(f)
	for sc.Scan() {
		line := strings.TrimSpace(sc.Text())
		if line == "" || strings.HasPrefix(line, "#") {
			continue
		}
		kind, rest, ok := strings.Cut(line, ":")
		if !ok {
			continue
		}
		fd := &finding{kind: strings.TrimSpace(kind), text: strings.TrimSpace(rest)}
		for _, tok := range strings.Fields(rest) {
			if v, ok := strings.CutPrefix(tok, "property="); ok {
				fd.property = v
			} else if v, ok := strings.CutPrefix(tok, "invariant="); ok {
				fd.invariant = v
			} else if v, ok := strings.CutPrefix(tok, "sig="); ok {
				fd.sig, _ = regexp.Compile("^(?:" + v + ")$")
			}
		}
		out = append(out, fd)
	}
	return out
}

func matchOpen(fs []*finding, prop string, v *sim.Violation) *finding {
	for _, f := range fs {
		if f.kind != "open" || f.property != prop || f.invariant != v.Invariant {
			continue
		}
		if f.sig == nil || f.sig.MatchString(v.Sig) {
			return f
		}
	}
	return nil
}

func goEnv() []string {
	env := os.Environ()
	set := func(k, v string) {
		for i, e := range env {
			if strings.HasPrefix(e, k+"=") {
				env[i] = k + "=" + v
				return
			}
		}
		env = append(env, k+"="+v)
	}
	set("GOFLAGS", "-mod=mod")
	set("GOPROXY", "off")
	set("GOSUMDB", "off")
	set("GOTOOLCHAIN", "local")
	return env
}

func goBin() string {
	if g := os.Getenv("GO"); g != "" {
		return g
	}
	return "go1.26.8"
}

// instrumentedPackages are the coreutils package directories whose mutexes
// the lock-yield flavour replaces.
var instrumentedPackages = []string{".", "chain", "wallet", "syncer", "threadgroup", "rhp/v4", "testutil"}

// prepareInstrumented copies /repo's working tree to a scratch directory
// outside /repo, /verif and /tmp, rewrites its mutexes (tools/instrument) and
// returns the scratch directory plus a modfile that points the worker build at
// it. The caller removes the directory once the worker is built.
func prepareInstrumented() (scratch, modfile string, err error) {
	run := func(name string, args ...string) error {
		cmd := exec.Command(name, args...)
		cmd.Dir = root
		cmd.Env = goEnv()
		out, err := cmd.CombinedOutput()
		if err != nil {
			return fmt.Errorf("%s %v: %v\n%s", name, args, err, out)
		}
		return nil
	}
	if err = run(goBin(), "build", "-o", filepath.Join(root, "bin", "instrument"), "./tools/instrument"); err != nil {
		return
	}
	os.MkdirAll("/var/tmp", 0o755)
	if scratch, err = os.MkdirTemp("/var/tmp", "verif-instrumented-"); err != nil {
		return
	}
	if err = run("rsync", "-a", "--exclude", ".git", "/repo/", scratch+"/"); err != nil {
		return
	}
	args := append([]string{scratch, filepath.Join(root, "vsyncsrc", "vsync.go.txt")}, instrumentedPackages...)
	if err = run(filepath.Join(root, "bin", "instrument"), args...); err != nil {
		return
	}
	mod, rerr := os.ReadFile(filepath.Join(root, "go.mod"))
	if rerr != nil {
		return scratch, "", rerr
	}
	mod = bytes.Replace(mod, []byte("replace go.sia.tech/coreutils => /repo"), []byte("replace go.sia.tech/coreutils => "+scratch), 1)
	mod = bytes.Replace(mod, []byte("=> ./third_party/frand"), []byte("=> "+filepath.Join(root, "third_party", "frand")), 1)
	modfile = filepath.Join(root, "bin", "instrumented.mod")
	if err = os.WriteFile(modfile, mod, 0o644); err != nil {
		return
	}
	sum, _ := os.ReadFile(filepath.Join(root, "go.sum"))
	err = os.WriteFile(filepath.Join(root, "bin", "instrumented.sum"), sum, 0o644)
	return
}

func buildWorker(flavour string) (string, error) {
	if *fWorker != "" {
		return *fWorker, nil
	}
	out := filepath.Join(root, "bin", "worker-"+flavour+".test")
	args := []string{"test", "-c", "-o", out}
	if flavour == "instrumented" {
		scratch, modfile, err := prepareInstrumented()
		if scratch != "" {
			defer os.RemoveAll(scratch)
		}
		if err != nil {
			return "", fmt.Errorf("preparing the instrumented copy failed: %v", err)
		}
		args = append(args, "-modfile="+modfile, "-tags=instrumented")
	} else {
		if mf := os.Getenv("VERIF_MODFILE"); mf != "" {
			args = append(args, "-modfile="+mf)
		}
		if tags := os.Getenv("VERIF_TAGS"); tags != "" {
			args = append(args, "-tags="+tags)
		}
	}
	args = append(args, "./worker")
	cmd := exec.Command(goBin(), args...)
	cmd.Dir = root
	cmd.Env = goEnv()
	var buf bytes.Buffer
	cmd.Stdout, cmd.Stderr = &buf, &buf
	if err := cmd.Run(); err != nil {
		return "", fmt.Errorf("building the worker failed: %v\n%s", err, buf.String())
	}
	return out, nil
}

// hangInSUT looks at the goroutine dump a worker prints when a run exceeds its
// real-time budget: if the run goroutine (the one executing the property's
// run function) is blocked with a coreutils frame above every harness frame -
// i.e. it called into the system under test and never came back - it returns
// that frame; otherwise "" (the harness itself is busy or waiting, e.g. for a
// relay storm between simulated nodes).
func hangInSUT(stderr string) string {
	i := strings.Index(stderr, "WATCHDOG-STACKS-BEGIN")
	if i < 0 {
		return ""
	}
	dump := stderr[i:]
	if j := strings.Index(dump, "WATCHDOG-STACKS-END"); j >= 0 {
		dump = dump[:j]
	}
	for _, g := range strings.Split(dump, "\n\n") {
		if !strings.Contains(g, "verif/sim.Execute") {
			continue
		}
		for _, l := range strings.Split(g, "\n") {
			if l == "" || l[0] == '\t' || strings.HasPrefix(l, "goroutine ") || strings.HasPrefix(l, "WATCHDOG") {
				continue
			}
			fn := l
			if k := strings.LastIndex(fn, "("); k > 0 {
				fn = fn[:k]
			}
			switch {
			case strings.HasPrefix(fn, "go.sia.tech/coreutils"):
				return fn
			case strings.HasPrefix(fn, "verif/") || strings.HasPrefix(fn, "verif."):
				return ""
			}
		}
	}
	return ""
}

// buildRaceWorker builds the plain flavour with the race detector.
func buildRaceWorker() (string, error) {
	out := filepath.Join(root, "bin", "worker-race.test")
	cmd := exec.Command(goBin(), "test", "-c", "-race", "-o", out, "./worker")
	cmd.Dir = root
	cmd.Env = goEnv()
	if b, err := cmd.CombinedOutput(); err != nil {
		return "", fmt.Errorf("building the race worker failed: %v\n%s", err, b)
	}
	return out, nil
}

// raceReport is one "WARNING: DATA RACE" block of a worker's stderr.
type raceReport struct {
	text  string
	tops  []string // innermost non-runtime frame of each access
	inSUT bool
}

var raceAccess = regexp.MustCompile(`(?m)^(?:Read|Write|Previous read|Previous write) at [^\n]*\n((?:  [^\n]*\n)+)`)

func parseRaceReports(stderr string) []raceReport {
	var out []raceReport
	parts := strings.Split(stderr, "WARNING: DATA RACE")
	for _, p := range parts[1:] {
		if i := strings.Index(p, "=================="); i >= 0 {
			p = p[:i]
		}
		r := raceReport{text: p, inSUT: true}
		for _, m := range raceAccess.FindAllStringSubmatch(p, -1) {
			top := ""
			for _, l := range strings.Split(m[1], "\n") {
				l = strings.TrimSpace(l)
				if l == "" || strings.HasPrefix(l, "/") || strings.Contains(l, ".go:") {
					continue // file:line lines
				}
				if strings.HasPrefix(l, "runtime.") || strings.HasPrefix(l, "sync.") || strings.HasPrefix(l, "sync/atomic.") {
					continue
				}
				top = l
				break
			}
			r.tops = append(r.tops, top)
			if !strings.HasPrefix(top, "go.sia.tech/coreutils") {
				r.inSUT = false
			}
		}
		if len(r.tops) < 2 {
			r.inSUT = false
		}
		out = append(out, r)
	}
	return out
}

// racePass runs n runs of the property under the race detector and returns
// the reports whose two accesses are both in coreutils code, plus the number of
// other (harness) reports and of completed runs.
func racePass(bin, prop string, base uint64, n, procs int) (sut []raceReport, other, completed int) {
	var mu sync.Mutex
	var wg sync.WaitGroup
	chunk := (n + procs - 1) / procs
	for w := 0; w < procs; w++ {
		from, cnt := w*chunk, chunk
		if from+cnt > n {
			cnt = n - from
		}
		if cnt <= 0 {
			continue
		}
		wg.Add(1)
		go func(from, cnt int) {
			defer wg.Done()
			cmd := exec.Command(bin, "-test.run", "^TestWorker$", "-test.timeout", "0")
			cmd.Env = append(os.Environ(),
				"VERIF_PROP="+prop,
				"VERIF_SEED="+strconv.FormatUint(base, 10),
				"VERIF_FROM="+strconv.Itoa(from),
				"VERIF_COUNT="+strconv.Itoa(cnt),
				"VERIF_MINIMISE=0",
				"VERIF_RUN_TIMEOUT=300",
				"VERIF_DEADLINE="+strconv.FormatInt(time.Now().Add(15*time.Minute).Unix(), 10),
				"GOMAXPROCS=1",
				"GODEBUG=asyncpreemptoff=1",
				"GORACE=halt_on_error=0 exitcode=0",
			)
			var stdout, stderr bytes.Buffer
			cmd.Stdout, cmd.Stderr = &stdout, &stderr
			done := make(chan error, 1)
			if cmd.Start() != nil {
				return
			}
			go func() { done <- cmd.Wait() }()
			select {
			case <-done:
			case <-time.After(20 * time.Minute):
				cmd.Process.Kill()
				<-done
			}
			reps := parseRaceReports(stderr.String())
			recs := strings.Count(stdout.String(), "\nREC ")
			mu.Lock()
			completed += recs
			for _, r := range reps {
				if r.inSUT {
					sut = append(sut, r)
				} else {
					other++
				}
			}
			mu.Unlock()
		}(from, cnt)
	}
	wg.Wait()
	return
}

type workerResult struct {
	recs   []sim.Record
	deaths []death
}

type death struct {
	Seed   uint64
	Output string
}

// runWorker executes indices [from,from+count) in one process; if the process
// dies it reports the seed it died on and continues after it.
func runWorker(bin, prop string, base uint64, from, count uint64, deadline time.Time, extra ...string) workerResult {
	var res workerResult
	for count > 0 {
		cmd := exec.Command(bin, "-test.run", "^TestWorker$", "-test.timeout", "0")
		cmd.Env = append(os.Environ(),
			"VERIF_PROP="+prop,
			"VERIF_SEED="+strconv.FormatUint(base, 10),
			"VERIF_FROM="+strconv.FormatUint(from, 10),
			"VERIF_COUNT="+strconv.FormatUint(count, 10),
			"VERIF_DEADLINE="+strconv.FormatInt(deadline.Unix(), 10),
			"GOMAXPROCS=1",
			"GODEBUG=asyncpreemptoff=1",
		)
		cmd.Env = append(cmd.Env, extra...)
		var stdout, stderr bytes.Buffer
		cmd.Stdout, cmd.Stderr = &stdout, &stderr
		done := make(chan error, 1)
		if err := cmd.Start(); err != nil {
			res.deaths = append(res.deaths, death{Output: err.Error()})
			return res
		}
		go func() { done <- cmd.Wait() }()
		var err error
		killed := false
		select {
		case err = <-done:
		case <-time.After(time.Until(deadline) + 120*time.Second):
			cmd.Process.Kill()
			err = <-done
			killed = true
		}
		started, finished := uint64(0), uint64(0)
		var lastStart uint64
		var pre *sim.Record
		clean := false
		sc := bufio.NewScanner(&stdout)
		sc.Buffer(make([]byte, 1<<20), 256<<20)
		for sc.Scan() {
			line := sc.Text()
			switch {
			case strings.HasPrefix(line, "START "):
				started++
				lastStart, _ = strconv.ParseUint(line[6:], 10, 64)
			case strings.HasPrefix(line, "PRE "):
				// the record of a violating run, printed before its cleanup
				var r sim.Record
				if json.Unmarshal([]byte(line[4:]), &r) == nil {
					pre = &r
				}
			case strings.HasPrefix(line, "REC "):
				var r sim.Record
				if json.Unmarshal([]byte(line[4:]), &r) == nil {
					res.recs = append(res.recs, r)
					finished++
				}
				pre = nil
			case line == "DONE" || strings.HasPrefix(line, "DEADLINE"):
				clean = true
			}
		}
		if clean && err == nil {
			return res
		}
		if pre != nil && pre.Seed == lastStart {
			// the run had already failed an invariant when the process died
			// (typically: stuck while closing what the run had opened)
			res.recs = append(res.recs, *pre)
		}
		// the process died (panic in a goroutine, fatal error, kill)
		tail := stderr.String() + stdout.String()
		hang := hangInSUT(stderr.String())
		if len(tail) > 6000 {
			tail = tail[len(tail)-6000:]
		}
		if hang != "" {
			tail = "HANG-IN-SUT: " + hang + "\n" + tail
		}
		if killed {
			tail = fmt.Sprintf("WATCHDOG: worker killed after exceeding the budget while running seed %d\n", lastStart) + tail
		}
		res.deaths = append(res.deaths, death{Seed: lastStart, Output: tail})
		if started == 0 || killed {
			return res
		}
		from += started
		if started > count {
			return res
		}
		count -= started
		_ = finished
	}
	return res
}

type evidence struct {
	PropertyID  string         `json:"property_id"`
	Tier        string         `json:"tier"`
	Seed        int64          `json:"seed"`
	Level       string         `json:"level"`
	Coverage    map[string]any `json:"coverage"`
	Assumptions []string       `json:"assumptions"`
	WallS       float64        `json:"wall_s"`
	Violations  int            `json:"violations"`
}

func writeEvidence(ev evidence) {
	// VERIF_EVIDENCE_DIR redirects the file (runs against deliberately broken
	// trees must not overwrite the evidence of the real tree)
	dir := filepath.Join(root, "evidence")
	if d := os.Getenv("VERIF_EVIDENCE_DIR"); d != "" {
		dir = d
	}
	os.MkdirAll(dir, 0o755)
	b, _ := json.MarshalIndent(ev, "", " ")
	os.WriteFile(filepath.Join(dir, ev.PropertyID+".json"), append(b, '\n'), 0o644)
}

type replayFile struct {
	Property  string   `json:"property"`
	Seed      uint64   `json:"seed"`
	Index     uint64   `json:"index"`
	Tape      []uint32 `json:"tape"`
	UseSeed   bool     `json:"use_seed"`
	Flavour   string   `json:"flavour,omitempty"`
	Invariant string   `json:"invariant"`
	Sig       string   `json:"sig"`
	Detail    string   `json:"detail"`
	Minimised bool     `json:"minimised"`
	FullTape  int      `json:"full_tape_len"`
	Trace     []string `json:"trace"`
	Note      string   `json:"note,omitempty"`
}

func replay(bin, prop, path string) (*sim.Record, string) {
	cmd := exec.Command(bin, "-test.run", "^TestWorker$", "-test.timeout", "0")
	cmd.Env = append(os.Environ(), "VERIF_PROP="+prop, "VERIF_REPLAY="+path, "GOMAXPROCS=1", "GODEBUG=asyncpreemptoff=1")
	var stdout, stderr bytes.Buffer
	cmd.Stdout, cmd.Stderr = &stdout, &stderr
	err := cmd.Run()
	sc := bufio.NewScanner(&stdout)
	sc.Buffer(make([]byte, 1<<20), 256<<20)
	for sc.Scan() {
		if line := sc.Text(); strings.HasPrefix(line, "REC ") {
			var r sim.Record
			if json.Unmarshal([]byte(line[4:]), &r) == nil {
				return &r, ""
			}
		}
	}
	out := stderr.String() + stdout.String()
	if len(out) > 4000 {
		out = out[len(out)-4000:]
	}
	return nil, fmt.Sprintf("worker died during replay (%v):\n%s", err, out)
}

func fail2(format string, args ...any) {
	fmt.Fprintf(os.Stderr, "simcheck: "+format+"\n", args...)
	os.Exit(2)
}

func main() {
	flag.Parse()
	p, ok := props.Registry[*fProp]
	if !ok {
		fail2("unknown property %q (have %v)", *fProp, props.IDs())
	}
	flavour := p.Flavour
	if flavour == "" {
		flavour = "plain"
	}
	if f := os.Getenv("VERIF_FLAVOUR"); f != "" {
		flavour = f
	}
	start := time.Now()
	bin, err := buildWorker(flavour)
	if err != nil && flavour == "instrumented" {
		// the instrumented copy is an extra, not a precondition: a tree it
		// cannot rewrite or build is still checked, at call granularity
		fmt.Fprintf(os.Stderr, "simcheck: %v\nsimcheck: falling back to the plain flavour (no lock-level scheduling points)\n", err)
		flavour = "plain"
		bin, err = buildWorker(flavour)
	}
	if err != nil {
		fail2("%v", err)
	}
	findings := loadFindings()

	if *fReplay != "" {
		if data, err := os.ReadFile(*fReplay); err == nil {
			var rf replayFile
			if json.Unmarshal(data, &rf) == nil && rf.Flavour == "race" {
				// a report of the race-detector pass is not a schedule: replaying
				// it means running that pass again and looking for the same pair
				rbin, err := buildRaceWorker()
				if err != nil {
					fail2("%v", err)
				}
				sut, _, n := racePass(rbin, p.ID, 1, 512, *fProcs)
				for _, r := range sut {
					if strings.Join(r.tops, " / ") == rf.Sig {
						fmt.Printf("data race in coreutils (race-detector pass, %d runs): %s\n%s\n", n, rf.Sig, r.text)
						fmt.Printf("VIOLATION property=%s replay=%s\n", p.ID, *fReplay)
						os.Exit(1)
					}
				}
				fmt.Printf("replay: the race-detector pass (%d runs) did not report %s again\n", n, rf.Sig)
				return
			}
		}
		rec, msg := replay(bin, p.ID, *fReplay)
		if rec == nil {
			// a process death is the recorded violation for crash-class findings
			data, _ := os.ReadFile(*fReplay)
			var rf replayFile
			json.Unmarshal(data, &rf)
			if strings.HasSuffix(rf.Invariant, ".process-died") {
				fmt.Println(msg)
				fmt.Printf("VIOLATION property=%s replay=%s\n", p.ID, *fReplay)
				os.Exit(1)
			}
			fail2("%s", msg)
		}
		for _, l := range rec.Trace {
			fmt.Println(l)
		}
		if rec.Violation != nil {
			fmt.Printf("violated %s [%s]: %s\n", rec.Violation.Invariant, rec.Violation.Sig, rec.Violation.Detail)
			if f := matchOpen(findings, p.ID, rec.Violation); f != nil {
				fmt.Printf("KNOWN-FINDING: %s\n", f.text)
				os.Exit(0)
			}
			fmt.Printf("VIOLATION property=%s replay=%s\n", p.ID, *fReplay)
			os.Exit(1)
		}
		if rec.Infra != "" {
			fail2("replay hit harness trouble: %s", rec.Infra)
		}
		fmt.Println("replay: no violation")
		return
	}

	tier := *fTier
	if t := os.Getenv("VERIF_TIER"); t != "" && !isFlagSet("tier") {
		tier = t
	}
	runs := p.Quick
	budget := 75 * time.Second
	if tier == "thorough" {
		runs = p.Thorough
		budget = 20 * time.Minute
	}
	if v := os.Getenv("VERIF_RUNS"); v != "" {
		runs, _ = strconv.Atoi(v)
	}
	if *fRuns > 0 {
		runs = *fRuns
	}
	if v := os.Getenv("VERIF_BUDGET"); v != "" {
		if d, err := time.ParseDuration(v); err == nil {
			budget = d
		}
	}
	if *fBudget > 0 {
		budget = *fBudget
	}
	base := uint64(1)
	if v := os.Getenv("VERIF_SEED"); v != "" {
		if n, err := strconv.ParseInt(v, 10, 64); err == nil {
			base = uint64(n)
		}
	}
	// known findings are not minimised again on every run
	var nomin []string
	for _, f := range findings {
		if f.kind == "open" && f.property == p.ID {
			nomin = append(nomin, f.invariant)
		}
	}
	os.Setenv("VERIF_NOMIN_INVARIANTS", strings.Join(nomin, ","))
	procs := *fProcs
	if procs > runs {
		procs = runs
	}
	deadline := time.Now().Add(budget)

	// fan out: interleaved chunks so that every worker sees cheap and
	// expensive seeds alike
	var mu sync.Mutex
	var all []sim.Record
	var deaths []death
	var wg sync.WaitGroup
	chunk := (runs + procs - 1) / procs
	for w := 0; w < procs; w++ {
		from := w * chunk
		cnt := chunk
		if from+cnt > runs {
			cnt = runs - from
		}
		if cnt <= 0 {
			continue
		}
		wg.Add(1)
		go func(from, cnt int) {
			defer wg.Done()
			r := runWorker(bin, p.ID, base, uint64(from), uint64(cnt), deadline, "VERIF_FLAVOUR="+flavour)
			mu.Lock()
			all = append(all, r.recs...)
			deaths = append(deaths, r.deaths...)
			mu.Unlock()
		}(from, cnt)
	}
	wg.Wait()
	exploreWall := time.Since(start)

	sort.Slice(all, func(i, j int) bool { return all[i].Seed < all[j].Seed })

	// determinism self-test on a sample: same seeds, fresh process
	det := map[string]any{"checked": 0, "diverged": 0}
	if *fVerifyD && len(all) > 0 {
		n := 8
		if tier == "thorough" {
			n = 40
		}
		if n > runs {
			n = runs
		}
		rr := runWorker(bin, p.ID, base, 0, uint64(n), time.Now().Add(5*time.Minute), "VERIF_MINIMISE=0", "VERIF_FLAVOUR="+flavour)
		bySeed := map[uint64]sim.Record{}
		for _, r := range all {
			bySeed[r.Seed] = r
		}
		checked, diverged := 0, 0
		var divSeeds []uint64
		for _, r := range rr.recs {
			if o, ok := bySeed[r.Seed]; ok {
				checked++
				if o.TraceHash != r.TraceHash || o.TapeLen != r.TapeLen {
					diverged++
					divSeeds = append(divSeeds, r.Seed)
				}
			}
		}
		det = map[string]any{"checked": checked, "diverged": diverged, "diverged_seeds": divSeeds, "measure": "trace hash + tape length of the same seed in a second process"}
	}

	// aggregate
	probes, faults := map[string]int{}, map[string]int{}
	shapes := map[string]bool{}
	var simMS int64
	var steps int
	infra := 0
	var infraMsgs []string
	type viol struct {
		rec sim.Record
		n   int
	}
	byInv := map[string]*viol{}
	var invOrder []string
	for _, r := range all {
		for k, v := range r.Probes {
			probes[k] += v
		}
		for k, v := range r.Faults {
			faults[k] += v
		}
		if r.Nontrivial {
			shapes[r.Shape] = true
		}
		simMS += r.SimMS
		steps += r.Steps
		if r.Infra != "" {
			infra++
			if len(infraMsgs) < 5 {
				infraMsgs = append(infraMsgs, fmt.Sprintf("seed %d: %s", r.Seed, r.Infra))
			}
		}
		if r.Violation != nil {
			key := r.Violation.Invariant + "|" + r.Violation.Sig
			if v, ok := byInv[key]; ok {
				v.n++
				if !v.rec.Minimised && r.Minimised {
					v.rec = r // prefer a record that carries a minimised tape
				}
			} else {
				byInv[key] = &viol{rec: r, n: 1}
				invOrder = append(invOrder, key)
			}
		}
	}

	// verdicts
	os.MkdirAll(filepath.Join(root, "replays"), 0o755)
	violations := 0
	var knownHit []string
	var vsummary []map[string]any
	for _, key := range invOrder {
		v := byInv[key]
		r := v.rec
		if f := matchOpen(findings, p.ID, r.Violation); f != nil {
			if f.hit == 0 {
				fmt.Printf("KNOWN-FINDING: %s\n", f.text)
				knownHit = append(knownHit, f.text)
			}
			f.hit += v.n
			continue
		}
		rf := replayFile{Property: p.ID, Seed: r.Seed, Index: r.Index, Tape: r.Tape, Flavour: flavour, Invariant: r.Violation.Invariant, Sig: r.Violation.Sig, Detail: r.Violation.Detail, FullTape: len(r.Tape), Trace: r.Trace}
		if r.Minimised {
			rf.Tape, rf.Minimised, rf.Trace, rf.Detail = r.MinTape, true, r.MinTrace, r.MinDetail
		}
		name := fmt.Sprintf("%s-%d-%s.json", p.ID, r.Seed, sanitize(r.Violation.Invariant))
		path := filepath.Join(root, "replays", name)
		b, _ := json.MarshalIndent(rf, "", " ")
		os.WriteFile(path, b, 0o644)
		// confirm in a fresh process
		rr, msg := replay(bin, p.ID, path)
		switch {
		case rr == nil:
			rf.Note = "replay did not complete: " + msg
		case rr.Violation == nil || rr.Violation.Invariant != r.Violation.Invariant:
			// fall back to the un-minimised tape
			rf.Tape, rf.Minimised, rf.Trace, rf.Detail = r.Tape, false, r.Trace, r.Violation.Detail
			b, _ = json.MarshalIndent(rf, "", " ")
			os.WriteFile(path, b, 0o644)
			rr2, _ := replay(bin, p.ID, path)
			if rr2 == nil || rr2.Violation == nil || rr2.Violation.Invariant != r.Violation.Invariant {
				rf.Note = "replay_flaky: the violation did not reproduce from its tape in a fresh process"
			}
		}
		if rf.Note != "" {
			b, _ = json.MarshalIndent(rf, "", " ")
			os.WriteFile(path, b, 0o644)
		}
		violations++
		fmt.Printf("violated %s [%s] in %d run(s), first seed %d (tape %d -> %d draws): %s\n", r.Violation.Invariant, r.Violation.Sig, v.n, r.Seed, len(r.Tape), len(rf.Tape), firstLine(rf.Detail))
		fmt.Printf("VIOLATION property=%s replay=%s\n", p.ID, path)
		vsummary = append(vsummary, map[string]any{"invariant": r.Violation.Invariant, "sig": r.Violation.Sig, "runs": v.n, "replay": path, "note": rf.Note})
	}
	hangSeen := map[string]bool{}
	for i, d := range deaths {
		name := fmt.Sprintf("%s-%d-process-died.json", p.ID, d.Seed)
		path := filepath.Join(root, "replays", name)
		rf := replayFile{Property: p.ID, Seed: d.Seed, UseSeed: true, Flavour: flavour, Invariant: p.ID + ".process-died", Sig: "process-died", Detail: d.Output}
		crashV := &sim.Violation{Invariant: rf.Invariant, Sig: crashSig(d.Output)}
		if strings.HasPrefix(d.Output, "HANG-IN-SUT: ") {
			// the run goroutine never came back from a call into coreutils
			fn := firstLine(strings.TrimPrefix(d.Output, "HANG-IN-SUT: "))
			crashV = &sim.Violation{Invariant: p.ID + ".hang", Sig: fn}
			rf.Invariant, rf.Sig = crashV.Invariant, fn
			if f := matchOpen(findings, p.ID, crashV); f != nil {
				if f.hit == 0 {
					fmt.Printf("KNOWN-FINDING: %s\n", f.text)
					knownHit = append(knownHit, f.text)
				}
				f.hit++
				continue
			}
			if !hangSeen[fn] {
				hangSeen[fn] = true
				b, _ := json.MarshalIndent(rf, "", " ")
				os.WriteFile(path, b, 0o644)
				violations++
				fmt.Printf("a run of seed %d never returned from %s (real-time budget exceeded with the run goroutine inside coreutils)\n", d.Seed, fn)
				fmt.Printf("VIOLATION property=%s replay=%s\n", p.ID, path)
				vsummary = append(vsummary, map[string]any{"invariant": rf.Invariant, "sig": fn, "runs": 1, "replay": path})
			}
			continue
		}
		if strings.Contains(d.Output, "WATCHDOG") || d.Seed == 0 || !crashInSUT(d.Output) {
			infra++
			if len(infraMsgs) < 5 {
				why := "worker died"
				if strings.Contains(d.Output, "WATCHDOG") {
					why = "run exceeded its real-time budget (watchdog)"
				}
				infraMsgs = append(infraMsgs, fmt.Sprintf("%s, seed %d", why, d.Seed))
			}
			continue
		}
		if f := matchOpen(findings, p.ID, crashV); f != nil {
			if f.hit == 0 {
				fmt.Printf("KNOWN-FINDING: %s\n", f.text)
				knownHit = append(knownHit, f.text)
			}
			f.hit++
			continue
		}
		rf.Sig = crashV.Sig
		b, _ := json.MarshalIndent(rf, "", " ")
		os.WriteFile(path, b, 0o644)
		violations++
		fmt.Printf("worker process died on seed %d (%s)\n", d.Seed, crashV.Sig)
		fmt.Printf("VIOLATION property=%s replay=%s\n", p.ID, path)
		vsummary = append(vsummary, map[string]any{"invariant": rf.Invariant, "sig": rf.Sig, "runs": 1, "replay": path})
		_ = i
	}

	// the race-detector pass (both tiers; VERIF_RACE=0 skips it)
	raceInfo := map[string]any{"ran": false}
	if p.Race && os.Getenv("VERIF_RACE") != "0" && *fReplay == "" {
		n := runs / 25
		if n > 3000 {
			n = 3000
		}
		if n < 64 {
			n = 64
		}
		if rbin, err := buildRaceWorker(); err != nil {
			fmt.Fprintf(os.Stderr, "simcheck: %v\nsimcheck: race-detector pass skipped\n", err)
			raceInfo["skipped"] = firstLine(err.Error())
		} else {
			sut, other, completed := racePass(rbin, p.ID, base, n, procs)
			raceInfo = map[string]any{"ran": true, "runs": completed, "reports_in_coreutils": len(sut), "reports_in_harness_code": other, "flavour": "plain, -race"}
			seenRace := map[string]bool{}
			for _, r := range sut {
				sig := strings.Join(r.tops, " / ")
				if seenRace[sig] {
					continue
				}
				seenRace[sig] = true
				rv := &sim.Violation{Invariant: p.ID + ".data-race", Sig: sig}
				if f := matchOpen(findings, p.ID, rv); f != nil {
					if f.hit == 0 {
						fmt.Printf("KNOWN-FINDING: %s\n", f.text)
						knownHit = append(knownHit, f.text)
					}
					f.hit++
					continue
				}
				name := fmt.Sprintf("%s-race-%x.json", p.ID, sha256.Sum256([]byte(sig)))[:len(p.ID)+6+16] + ".json"
				path := filepath.Join(root, "replays", name)
				rf := replayFile{Property: p.ID, UseSeed: true, Flavour: "race", Invariant: rv.Invariant, Sig: sig, Detail: r.text}
				b, _ := json.MarshalIndent(rf, "", " ")
				os.WriteFile(path, b, 0o644)
				violations++
				fmt.Printf("data race in coreutils (race-detector pass): %s\n", sig)
				fmt.Printf("VIOLATION property=%s replay=%s\n", p.ID, path)
				vsummary = append(vsummary, map[string]any{"invariant": rv.Invariant, "sig": sig, "runs": 1, "replay": path})
			}
		}
	}

	// samples: the first two runs again, verbose
	var samples []any
	{
		sr := runWorker(bin, p.ID, base, 0, 2, time.Now().Add(2*time.Minute), "VERIF_VERBOSE=1", "VERIF_MINIMISE=0", "VERIF_FLAVOUR="+flavour)
		for _, r := range sr.recs {
			tr := r.Trace
			if len(tr) > 40 {
				tr = append(tr[:40:40], fmt.Sprintf("… %d more events", len(r.Trace)-40))
			}
			samples = append(samples, map[string]any{"seed": r.Seed, "steps": r.Steps, "tape_len": r.TapeLen, "probes": r.Probes, "faults": r.Faults, "trace": tr})
		}
		if len(samples) == 0 {
			samples = append(samples, "no sample run completed")
		}
	}

	wall := time.Since(start).Seconds()
	cov := map[string]any{
		"evaluations":          len(all),
		"distinct_nontrivial":  len(shapes),
		"rule":                 p.Rule,
		"samples":              samples,
		"runs_requested":       runs,
		"runs_per_hour":        int(float64(len(all)) / exploreWall.Hours()),
		"worker_processes":     procs,
		"sim_time_s":           float64(simMS) / 1000,
		"events":               steps,
		"faults_fired":         faults,
		"probes":               probes,
		"components":           map[string]any{"real": p.Real, "stub": p.Stub},
		"determinism":          det,
		"flavour":              flavour,
		"lock_yields":          flavour == "instrumented",
		"race_detector_pass":   raceInfo,
		"known_findings":       knownHit,
		"harness_trouble_runs": infra,
		"violations_detail":    vsummary,
		"seed_base":            base,
		"exhaustive":           false,
	}
	ev := evidence{PropertyID: p.ID, Tier: tier, Seed: int64(base), Level: p.Level, Coverage: cov, Assumptions: p.Assumptions, WallS: wall, Violations: violations}
	writeEvidence(ev)

	fmt.Printf("%s %s: %d runs (%d distinct non-trivial traces) in %.1fs, %d violation(s), %d known finding(s), %d harness-trouble run(s)\n",
		p.ID, tier, len(all), len(shapes), wall, violations, len(knownHit), infra)
	if violations > 0 {
		for _, m := range infraMsgs {
			fmt.Fprintln(os.Stderr, "harness trouble:", m)
		}
		os.Exit(1)
	}
	if len(all) == 0 {
		fail2("no run completed")
	}
	if infra*50 > len(all) || (infra > 0 && len(all) < 50) {
		for _, m := range infraMsgs {
			fmt.Fprintln(os.Stderr, "harness trouble:", m)
		}
		fail2("%d of %d runs hit harness trouble", infra, len(all))
	}
	for _, m := range infraMsgs {
		fmt.Fprintln(os.Stderr, "harness trouble (tolerated):", m)
	}
}

func isFlagSet(name string) bool {
	set := false
	flag.Visit(func(f *flag.Flag) {
		if f.Name == name {
			set = true
		}
	})
	return set
}

func sanitize(s string) string {
	return strings.Map(func(r rune) rune {
		if r >= 'a' && r <= 'z' || r >= 'A' && r <= 'Z' || r >= '0' && r <= '9' || r == '-' || r == '.' {
			return r
		}
		return '_'
	}, s)
}

func firstLine(s string) string {
	if i := strings.IndexByte(s, '\n'); i >= 0 {
		s = s[:i]
	}
	if len(s) > 300 {
		s = s[:300] + "…"
	}
	return s
}

func firstLines(s string, n int) string {
	l := strings.Split(s, "\n")
	if len(l) > n {
		l = l[:n]
	}
	return strings.Join(l, "\n")
}

// crashInSUT: a worker death counts as a violation only when the dump shows a
// panic / fatal error whose stack goes through coreutils code.
func crashInSUT(out string) bool {
	if !strings.Contains(out, "panic:") && !strings.Contains(out, "fatal error:") {
		return false
	}
	return strings.Contains(out, "go.sia.tech/coreutils/")
}

func crashSig(out string) string {
	for _, l := range strings.Split(out, "\n") {
		if strings.HasPrefix(l, "panic:") || strings.HasPrefix(l, "fatal error:") {
			if len(l) > 120 {
				l = l[:120]
			}
			return l
		}
	}
	return "died"
}
