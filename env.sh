# sourced by every script in /verif
export GOFLAGS=-mod=mod GOPROXY=off GOSUMDB=off GOTOOLCHAIN=local
export GO=${GO:-go1.26.8}
export GOCACHE=${GOCACHE:-/root/.cache/go-build}
